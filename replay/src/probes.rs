//! Deterministic probe sets: concrete inputs run against the REAL crate and compared with small reference
//! implementations written here from RFC 8152 / RFC 8949 (not from the crate).  They are used by tools/check.py to look
//! for a failing INPUT once the verifier has flagged an obligation (failed, or no longer decidable on a changed tree);
//! they never decide a property on their own on the unchanged tree.  Each probe prints `FAILING-INPUT ...` and returns 1
//! at the first disagreement.
use ciborium::value::{Integer, Value};
use coset::*;
use std::convert::TryFrom;

/// The property on whose behalf the probe runs (env PROBE_PROPERTY, set by tools/check.py); a comparison is made only if
/// it witnesses that property (`tags` = comma-separated ids); no variable = every comparison.
pub fn relevant(tags: &str) -> bool {
    match std::env::var("PROBE_PROPERTY") { Ok(p) if !p.is_empty() => tags.split(',').any(|t| t == p), _ => true }
}
/// C02 on a to-be-signed/MACed/AAD structure: element `idx` of the array the real function produced is the byte string `slot`
/// (whatever the other elements look like); structures that are not well-formed CBOR arrays are not C02's business
pub fn slot_mismatch(produced: &[u8], idx: usize, slot: &[u8]) -> bool {
    match ciborium::de::from_reader::<Value, _>(produced) {
        Ok(Value::Array(a)) => match a.get(idx) { Some(Value::Bytes(b)) => b.as_slice() != slot, _ => true },
        _ => false,
    }
}
/// print a disagreement if it witnesses the property the probe runs for; -> whether it counts
pub fn report(tags: &str, msg: String) -> bool {
    if relevant(tags) { println!("FAILING-INPUT {}", msg); true } else { false }
}
pub fn hex(b: &[u8]) -> String { b.iter().map(|x| format!("{:02x}", x)).collect() }

// ---------------------------------------------------------------- reference CBOR encoder (deterministic)
pub fn head(major: u8, n: u64) -> Vec<u8> {
    let m = major << 5;
    if n < 24 { vec![m | n as u8] }
    else if n <= 0xff { vec![m | 24, n as u8] }
    else if n <= 0xffff { let mut v = vec![m | 25]; v.extend_from_slice(&(n as u16).to_be_bytes()); v }
    else if n <= 0xffff_ffff { let mut v = vec![m | 26]; v.extend_from_slice(&(n as u32).to_be_bytes()); v }
    else { let mut v = vec![m | 27]; v.extend_from_slice(&n.to_be_bytes()); v }
}
pub fn bstr(b: &[u8]) -> Vec<u8> { let mut v = head(2, b.len() as u64); v.extend_from_slice(b); v }
pub fn tstr(s: &str) -> Vec<u8> { let mut v = head(3, s.len() as u64); v.extend_from_slice(s.as_bytes()); v }
pub fn int(i: i128) -> Vec<u8> { if i >= 0 { head(0, i as u64) } else { head(1, (-1 - i) as u64) } }
pub fn structure(ctx: &str, slots: &[&[u8]]) -> Vec<u8> {
    let mut v = head(4, 1 + slots.len() as u64);
    v.extend(tstr(ctx));
    for s in slots { v.extend(bstr(s)); }
    v
}
const LENS: [usize; 14] = [0, 1, 23, 24, 25, 254, 255, 256, 257, 65534, 65535, 65536, 65537, 70000];
fn bytes(n: usize, seed: u8) -> Vec<u8> { (0..n).map(|i| (i as u8).wrapping_mul(31).wrapping_add(seed)).collect() }

fn protected_palette() -> Vec<(ProtectedHeader, Vec<u8>)> {
    // (header as held in memory, the byte string it must contribute)
    let mut v = vec![];
    v.push((ProtectedHeader::default(), vec![]));
    let h = HeaderBuilder::new().algorithm(iana::Algorithm::ES256).build();
    v.push((ProtectedHeader { original_data: None, header: h }, vec![0xa1, 0x01, 0x26]));
    // decoded from the wire in non-canonical forms: wrapped empty map, indefinite-length map, non-minimal int, long bytes
    for wire in [vec![0xa0u8], vec![0xbf, 0xff], vec![0xa1, 0x18, 0x01, 0x26], { let mut w = vec![0xa1, 0x04]; w.extend(bstr(&bytes(300, 7))); w }] {
        if let Ok(p) = ProtectedHeader::from_cbor_bstr(Value::Bytes(wire.clone())) { v.push((p, wire)); }
    }
    // built in memory with extra parameters in a non-sorted insertion order: the slot is the header's encoding, typed fields
    // first, extras exactly in insertion order (what `to_vec` and the wire form of the message use)
    let h = HeaderBuilder::new().algorithm(iana::Algorithm::ES256).key_id(vec![9, 9]).value(100, Value::from(1)).value(50, Value::from(2)).text_value("z".into(), Value::Null).value(-3, Value::Bytes(vec![])).build();
    v.push((ProtectedHeader { original_data: None, header: h }, vec![0xa6, 0x01, 0x26, 0x04, 0x42, 0x09, 0x09, 0x18, 0x64, 0x01, 0x18, 0x32, 0x02, 0x61, 0x7a, 0xf6, 0x22, 0x40]));
    v
}

/// C03 / C04 / C05 / C06: structure bytes and what the closures are handed
pub fn probe_structures() -> i32 {
    let prots = protected_palette();
    let mut n = 0u64;
    macro_rules! check { ($tags:expr, $got:expr, $want:expr, $what:expr) => {{ if relevant($tags) { n += 1; let g: Vec<u8> = $got; let w: Vec<u8> = $want; if g != w {
        println!("FAILING-INPUT {}: got {}.. ({} bytes) want {}.. ({} bytes)", $what, hex(&g[..g.len().min(24)]), g.len(), hex(&w[..w.len().min(24)]), w.len()); return 1; } } }}; }
    macro_rules! slot { ($got:expr, $idx:expr, $slot:expr, $what:expr) => {{ if relevant("C02") { n += 1; let g: Vec<u8> = $got; if slot_mismatch(&g, $idx, $slot) {
        println!("FAILING-INPUT {}: element {} of the structure is not the protected byte string {}.. ({} bytes)", $what, $idx, hex(&$slot[..$slot.len().min(24)]), $slot.len()); return 1; } } }}; }
    for (pi, (p, slot)) in prots.iter().enumerate() {
        for (li, &la) in LENS.iter().enumerate() {
            for &lp in &[LENS[(li * 5 + 3) % LENS.len()], 0, la] {
                let aad = bytes(la, 1);
                let payload = bytes(lp, 2);
                let what = format!("protected#{} aad_len={} payload_len={}", pi, la, lp);
                // Sig_structure, all three contexts, with and without sign_protected
                for (c, name) in [(SignatureContext::CoseSign1, "Signature1"), (SignatureContext::CoseSignature, "Signature"), (SignatureContext::CounterSignature, "CounterSignature")] {
                    check!("C03", sig_structure_data(c, p.clone(), None, &aad, &payload), structure(name, &[slot, &aad, &payload]), format!("sig_structure_data {} {}", name, what));
                    slot!(sig_structure_data(c, p.clone(), None, &aad, &payload), 1, slot, format!("sig_structure_data {} {}", name, what));
                    for (p2, slot2) in prots.iter().take(3) {
                        check!("C03", sig_structure_data(c, p.clone(), Some(p2.clone()), &aad, &payload), structure(name, &[slot, slot2, &aad, &payload]), format!("sig_structure_data+sign {} {}", name, what));
                        slot!(sig_structure_data(c, p.clone(), Some(p2.clone()), &aad, &payload), 2, slot2, format!("sig_structure_data+sign {} {}", name, what));
                    }
                }
                for (c, name) in [(MacContext::CoseMac, "MAC"), (MacContext::CoseMac0, "MAC0")] {
                    check!("C04", mac_structure_data(c, p.clone(), &aad, &payload), structure(name, &[slot, &aad, &payload]), format!("mac_structure_data {} {}", name, what));
                    slot!(mac_structure_data(c, p.clone(), &aad, &payload), 1, slot, format!("mac_structure_data {} {}", name, what));
                }
                for (c, name) in [(EncryptionContext::CoseEncrypt, "Encrypt"), (EncryptionContext::CoseEncrypt0, "Encrypt0"), (EncryptionContext::EncRecipient, "Enc_Recipient"),
                                  (EncryptionContext::MacRecipient, "Mac_Recipient"), (EncryptionContext::RecRecipient, "Rec_Recipient")] {
                    check!("C05", enc_structure_data(c, p.clone(), &aad), structure(name, &[slot, &aad]), format!("enc_structure_data {} {}", name, what));
                    slot!(enc_structure_data(c, p.clone(), &aad), 1, slot, format!("enc_structure_data {} {}", name, what));
                }
                // typed wrappers and closures (embedded + detached, create + verify, fallible + infallible); each family runs only
                // for the properties it concerns, so that a panic inside one is not reported for another
                if relevant("C03,C06,C01") {
                let s1 = CoseSign1 { protected: p.clone(), payload: Some(payload.clone()), ..Default::default() };
                check!("C03", s1.tbs_data(&aad), structure("Signature1", &[slot, &aad, &payload]), format!("CoseSign1::tbs_data {}", what));
                slot!(s1.tbs_data(&aad), 1, slot, format!("CoseSign1::tbs_data {}", what));
                let s1d = CoseSign1 { protected: p.clone(), ..Default::default() };
                check!("C03", s1d.tbs_detached_data(&payload, &aad), structure("Signature1", &[slot, &aad, &payload]), format!("CoseSign1::tbs_detached_data {}", what));
                slot!(s1d.tbs_detached_data(&payload, &aad), 1, slot, format!("CoseSign1::tbs_detached_data {}", what));
                let mut seen: Vec<u8> = vec![];
                let _ = s1.verify_signature(&aad, |_s, d| -> Result<(), ()> { seen = d.to_vec(); Ok(()) });
                check!("C03,C06", seen.clone(), structure("Signature1", &[slot, &aad, &payload]), format!("CoseSign1::verify_signature {}", what));
                slot!(seen.clone(), 1, slot, format!("CoseSign1::verify_signature {}", what));
                for sp in 0..2usize {
                let sig = CoseSignature { protected: prots[sp].0.clone(), ..Default::default() };
                let sg = CoseSign { protected: p.clone(), payload: Some(payload.clone()), signatures: vec![sig.clone()], ..Default::default() };
                check!("C03", sg.tbs_data(&aad, &sig), structure("Signature", &[slot, &prots[sp].1, &aad, &payload]), format!("CoseSign::tbs_data {}", what));
                slot!(sg.tbs_data(&aad, &sig), 1, slot, format!("CoseSign::tbs_data {}", what));
                slot!(sg.tbs_data(&aad, &sig), 2, &prots[sp].1, format!("CoseSign::tbs_data {}", what));
                let sgd = CoseSign { protected: p.clone(), signatures: vec![sig.clone()], ..Default::default() };
                check!("C03", sgd.tbs_detached_data(&payload, &aad, &sig), structure("Signature", &[slot, &prots[sp].1, &aad, &payload]), format!("CoseSign::tbs_detached_data {}", what));
                slot!(sgd.tbs_detached_data(&payload, &aad, &sig), 1, slot, format!("CoseSign::tbs_detached_data {}", what));
                slot!(sgd.tbs_detached_data(&payload, &aad, &sig), 2, &prots[sp].1, format!("CoseSign::tbs_detached_data {}", what));
                let _ = sgd.verify_detached_signature(0, &payload, &aad, |_s, d| -> Result<(), ()> { seen = d.to_vec(); Ok(()) });
                check!("C03,C06", seen.clone(), structure("Signature", &[slot, &prots[sp].1, &aad, &payload]), format!("CoseSign::verify_detached_signature {}", what));
                slot!(seen.clone(), 1, slot, format!("CoseSign::verify_detached_signature {}", what));
                slot!(seen.clone(), 2, &prots[sp].1, format!("CoseSign::verify_detached_signature {}", what));
                }
                }
                if relevant("C04,C06,C01") {
                let mut seen: Vec<u8> = vec![];
                let m0 = CoseMac0 { protected: p.clone(), payload: Some(payload.clone()), ..Default::default() };
                let _ = m0.verify_tag(&aad, |_t, d| -> Result<(), ()> { seen = d.to_vec(); Ok(()) });
                check!("C04,C06", seen.clone(), structure("MAC0", &[slot, &aad, &payload]), format!("CoseMac0::verify_tag {}", what));
                slot!(seen.clone(), 1, slot, format!("CoseMac0::verify_tag {}", what));
                let m = CoseMac { protected: p.clone(), payload: Some(payload.clone()), ..Default::default() };
                let _ = m.verify_tag(&aad, |_t, d| -> Result<(), ()> { seen = d.to_vec(); Ok(()) });
                check!("C04,C06", seen.clone(), structure("MAC", &[slot, &aad, &payload]), format!("CoseMac::verify_tag {}", what));
                slot!(seen.clone(), 1, slot, format!("CoseMac::verify_tag {}", what));
                }
                if relevant("C05,C06,C01") {
                let mut seen: Vec<u8> = vec![];
                let e0 = CoseEncrypt0 { protected: p.clone(), ciphertext: Some(vec![1]), ..Default::default() };
                let _ = e0.decrypt(&aad, |_c, d| -> Result<Vec<u8>, ()> { seen = d.to_vec(); Ok(vec![]) });
                check!("C05,C06", seen.clone(), structure("Encrypt0", &[slot, &aad]), format!("CoseEncrypt0::decrypt {}", what));
                slot!(seen.clone(), 1, slot, format!("CoseEncrypt0::decrypt {}", what));
                let e = CoseEncrypt { protected: p.clone(), ciphertext: Some(vec![1]), ..Default::default() };
                let _ = e.decrypt(&aad, |_c, d| -> Result<Vec<u8>, ()> { seen = d.to_vec(); Ok(vec![]) });
                check!("C05,C06", seen.clone(), structure("Encrypt", &[slot, &aad]), format!("CoseEncrypt::decrypt {}", what));
                slot!(seen.clone(), 1, slot, format!("CoseEncrypt::decrypt {}", what));
                let r = CoseRecipient { protected: p.clone(), ciphertext: Some(vec![1]), ..Default::default() };
                let _ = r.decrypt(EncryptionContext::MacRecipient, &aad, |_c, d| -> Result<Vec<u8>, ()> { seen = d.to_vec(); Ok(vec![]) });
                check!("C05,C06", seen.clone(), structure("Mac_Recipient", &[slot, &aad]), format!("CoseRecipient::decrypt {}", what));
                slot!(seen.clone(), 1, slot, format!("CoseRecipient::decrypt {}", what));
                }
                // C02 on the typed wrappers: only the protected slot(s) are looked at, and a panic inside a wrapper is somebody else's business
                if relevant("C02") && std::env::var("PROBE_PROPERTY").map(|x| x == "C02").unwrap_or(false) {
                    use std::panic::{catch_unwind, AssertUnwindSafe};
                    macro_rules! slot_safe { ($got:expr, $idx:expr, $slot:expr, $what:expr) => {{ n += 1;
                        if let Ok(g) = catch_unwind(AssertUnwindSafe(|| -> Vec<u8> { $got })) { if slot_mismatch(&g, $idx, $slot) {
                            println!("FAILING-INPUT {} {}: element {} of the structure is not the protected byte string {}.. ({} bytes)", $what, what, $idx, hex(&$slot[..$slot.len().min(24)]), $slot.len()); return 1; } } }}; }
                    let s1 = CoseSign1 { protected: p.clone(), payload: Some(payload.clone()), ..Default::default() };
                    let s1d = CoseSign1 { protected: p.clone(), ..Default::default() };
                    slot_safe!(s1.tbs_data(&aad), 1, slot, "CoseSign1::tbs_data");
                    slot_safe!(s1d.tbs_detached_data(&payload, &aad), 1, slot, "CoseSign1::tbs_detached_data");
                    slot_safe!({ let mut d2 = vec![]; let _ = s1.verify_signature(&aad, |_s, d| -> Result<(), ()> { d2 = d.to_vec(); Ok(()) }); d2 }, 1, slot, "CoseSign1::verify_signature");
                    slot_safe!({ let mut d2 = vec![]; let _ = s1d.verify_detached_signature(&payload, &aad, |_s, d| -> Result<(), ()> { d2 = d.to_vec(); Ok(()) }); d2 }, 1, slot, "CoseSign1::verify_detached_signature");
                    for sp in 0..2usize {
                        let sig = CoseSignature { protected: prots[sp].0.clone(), ..Default::default() };
                        let sg = CoseSign { protected: p.clone(), payload: Some(payload.clone()), signatures: vec![sig.clone()], ..Default::default() };
                        let sgd = CoseSign { protected: p.clone(), signatures: vec![sig.clone()], ..Default::default() };
                        slot_safe!(sg.tbs_data(&aad, &sig), 1, slot, "CoseSign::tbs_data"); slot_safe!(sg.tbs_data(&aad, &sig), 2, &prots[sp].1, "CoseSign::tbs_data (signer)");
                        slot_safe!(sgd.tbs_detached_data(&payload, &aad, &sig), 1, slot, "CoseSign::tbs_detached_data"); slot_safe!(sgd.tbs_detached_data(&payload, &aad, &sig), 2, &prots[sp].1, "CoseSign::tbs_detached_data (signer)");
                        slot_safe!({ let mut d2 = vec![]; let _ = sg.verify_signature(0, &aad, |_s, d| -> Result<(), ()> { d2 = d.to_vec(); Ok(()) }); d2 }, 2, &prots[sp].1, "CoseSign::verify_signature (signer)");
                    }
                    let m0 = CoseMac0 { protected: p.clone(), payload: Some(payload.clone()), ..Default::default() };
                    let m = CoseMac { protected: p.clone(), payload: Some(payload.clone()), ..Default::default() };
                    slot_safe!({ let mut d2 = vec![]; let _ = m0.verify_tag(&aad, |_t, d| -> Result<(), ()> { d2 = d.to_vec(); Ok(()) }); d2 }, 1, slot, "CoseMac0::verify_tag");
                    slot_safe!({ let mut d2 = vec![]; let _ = m.verify_tag(&aad, |_t, d| -> Result<(), ()> { d2 = d.to_vec(); Ok(()) }); d2 }, 1, slot, "CoseMac::verify_tag");
                    let e0 = CoseEncrypt0 { protected: p.clone(), ciphertext: Some(vec![1]), ..Default::default() };
                    let e = CoseEncrypt { protected: p.clone(), ciphertext: Some(vec![1]), ..Default::default() };
                    let rc = CoseRecipient { protected: p.clone(), ciphertext: Some(vec![1]), ..Default::default() };
                    slot_safe!({ let mut d2 = vec![]; let _ = e0.decrypt(&aad, |_c, d| -> Result<Vec<u8>, ()> { d2 = d.to_vec(); Ok(vec![]) }); d2 }, 1, slot, "CoseEncrypt0::decrypt");
                    slot_safe!({ let mut d2 = vec![]; let _ = e.decrypt(&aad, |_c, d| -> Result<Vec<u8>, ()> { d2 = d.to_vec(); Ok(vec![]) }); d2 }, 1, slot, "CoseEncrypt::decrypt");
                    slot_safe!({ let mut d2 = vec![]; let _ = rc.decrypt(EncryptionContext::EncRecipient, &aad, |_c, d| -> Result<Vec<u8>, ()> { d2 = d.to_vec(); Ok(vec![]) }); d2 }, 1, slot, "CoseRecipient::decrypt");
                }
            }
        }
    }
    // C06: a built and signed message is a message the decoder takes back, whatever the (individually well-formed) header
    // buckets hold - the same parameter may sit in both buckets, the crate's data model has no rule against it - and the
    // verifier is then handed the bytes the signer was handed
    if relevant("C06") {
        let both = HeaderBuilder::new().algorithm(iana::Algorithm::ES256).key_id(vec![9, 9]).content_format(iana::CoapContentFormat::Cbor).value(1000, Value::from(1)).text_value("t".into(), Value::Null).build();
        let other = HeaderBuilder::new().algorithm(iana::Algorithm::ES384).key_id(vec![8]).content_type("a/b".into()).value(1000, Value::from(2)).text_value("t".into(), Value::from(3)).iv(vec![1]).build();
        for (up, un) in [(both.clone(), both.clone()), (both.clone(), other.clone()), (Header::default(), other.clone()), (other.clone(), Header::default())] {
            let aad = bytes(5, 1); let payload = bytes(9, 2);
            n += 1;
            let mut made: Vec<u8> = vec![];
            let m = CoseSign1Builder::new().protected(up.clone()).unprotected(un.clone()).payload(payload.clone()).create_signature(&aad, |d| { made = d.to_vec(); vec![7; 4] }).build();
            let w = m.to_vec().unwrap();
            match CoseSign1::from_slice(&w) {
                Ok(back) => { let mut seen: Vec<u8> = vec![]; let _ = back.verify_signature(&aad, |s2, d| -> Result<(), ()> { seen = if s2 == [7; 4] { d.to_vec() } else { vec![0xff] }; Ok(()) });
                    if seen != made { println!("FAILING-INPUT COSE_Sign1 {} built with parameters in both header buckets: the verifier is handed {}.., the signer was handed {}..", hex(&w), hex(&seen[..seen.len().min(16)]), hex(&made[..made.len().min(16)])); return 1; } }
                Err(e) => { println!("FAILING-INPUT COSE_Sign1 {} was built and signed through the builder, yet the decoder refuses it ({:?}): its signature can never reach a verifier", hex(&w), e); return 1; }
            }
            n += 1;
            let mut made2: Vec<u8> = vec![];
            let sg = CoseSignatureBuilder::new().protected(up.clone()).unprotected(un.clone()).build();
            let m = CoseSignBuilder::new().protected(up.clone()).unprotected(un.clone()).payload(payload.clone()).add_created_signature(sg, &aad, |d| { made2 = d.to_vec(); vec![6; 3] }).build();
            let w = m.to_vec().unwrap();
            match CoseSign::from_slice(&w) {
                Ok(back) => { let mut seen: Vec<u8> = vec![]; let _ = back.verify_signature(0, &aad, |s2, d| -> Result<(), ()> { seen = if s2 == [6; 3] { d.to_vec() } else { vec![0xff] }; Ok(()) });
                    if seen != made2 { println!("FAILING-INPUT COSE_Sign {} built with parameters in both header buckets: verifier and signer are handed different bytes", hex(&w)); return 1; } }
                Err(e) => { println!("FAILING-INPUT COSE_Sign {} was built and signed through the builder, yet the decoder refuses it ({:?})", hex(&w), e); return 1; }
            }
            n += 1;
            let mut made3: Vec<u8> = vec![];
            let m = CoseMac0Builder::new().protected(up.clone()).unprotected(un.clone()).payload(payload.clone()).create_tag(&aad, |d| { made3 = d.to_vec(); vec![5; 2] }).build();
            let w = m.to_vec().unwrap();
            match CoseMac0::from_slice(&w) {
                Ok(back) => { let mut seen: Vec<u8> = vec![]; let _ = back.verify_tag(&aad, |t2, d| -> Result<(), ()> { seen = if t2 == [5; 2] { d.to_vec() } else { vec![0xff] }; Ok(()) });
                    if seen != made3 { println!("FAILING-INPUT COSE_Mac0 {} built with parameters in both header buckets: verifier and MAC creator are handed different bytes", hex(&w)); return 1; } }
                Err(e) => { println!("FAILING-INPUT COSE_Mac0 {} was built and tagged through the builder, yet the decoder refuses it ({:?})", hex(&w), e); return 1; }
            }
            n += 1;
            let mut made4: Vec<u8> = vec![];
            let m = CoseEncrypt0Builder::new().protected(up.clone()).unprotected(un.clone()).create_ciphertext(&payload, &aad, |_p, d| { made4 = d.to_vec(); vec![4; 2] }).build();
            let w = m.to_vec().unwrap();
            match CoseEncrypt0::from_slice(&w) {
                Ok(back) => { let mut seen: Vec<u8> = vec![]; let _ = back.decrypt(&aad, |c2, d| -> Result<Vec<u8>, ()> { seen = if c2 == [4; 2] { d.to_vec() } else { vec![0xff] }; Ok(vec![]) });
                    if seen != made4 { println!("FAILING-INPUT COSE_Encrypt0 {} built with parameters in both header buckets: decryptor and encryptor are handed different bytes", hex(&w)); return 1; } }
                Err(e) => { println!("FAILING-INPUT COSE_Encrypt0 {} was built through the builder, yet the decoder refuses it ({:?})", hex(&w), e); return 1; }
            }
        }
    }
    // builders: what create/add helpers hand to the closure, and what verification sees after the wire
    for (&la, empty_hdr) in [0usize, 24, 255, 256, 65535].iter().zip([false, true, false, true, false]).chain([0usize, 24].iter().zip([true, false])) {
        let aad = bytes(la, 3);
        let payload = bytes(la / 2 + 5, 4);
        let hdr = if empty_hdr { Header::default() } else { HeaderBuilder::new().algorithm(iana::Algorithm::ES256).key_id(vec![9, 9]).build() };
        let slot: Vec<u8> = if empty_hdr { vec![] } else { hdr.clone().to_vec().unwrap() };
        if relevant("C03,C06,C01") {
        let mut created: Vec<Vec<u8>> = vec![];
        let s1 = CoseSign1Builder::new().protected(hdr.clone()).payload(payload.clone()).create_signature(&aad, |d| { created.push(d.to_vec()); vec![7; 4] }).build();
        let s1 = CoseSign1::from_slice(&s1.to_vec().unwrap()).unwrap();
        let mut verified: Vec<u8> = vec![];
        let _ = s1.verify_signature(&aad, |s, d| -> Result<(), ()> { if s != [7; 4] { verified = vec![0xff]; } else { verified = d.to_vec(); } Ok(()) });
        check!("C06", verified.clone(), created[0].clone(), format!("Sign1 create/verify aad_len={}", la));
        check!("C03,C06", created[0].clone(), structure("Signature1", &[&slot, &aad, &payload]), format!("Sign1 create aad_len={}", la));
        // multi signer, fallible + infallible, detached
        let sig_hdr = HeaderBuilder::new().key_id(vec![1]).build();
        let sslot = sig_hdr.clone().to_vec().unwrap();
        let mk = || CoseSignatureBuilder::new().protected(sig_hdr.clone()).build();
        let mut c2: Vec<Vec<u8>> = vec![];
        let b = CoseSignBuilder::new().protected(hdr.clone())
            .add_detached_signature(mk(), &payload, &aad, |d| { c2.push(d.to_vec()); vec![1] })
            .try_add_detached_signature(mk(), &payload, &aad, |d| -> Result<Vec<u8>, ()> { c2.push(d.to_vec()); Ok(vec![2]) }).unwrap()
            .build();
        let b = CoseSign::from_tagged_slice(&b.to_tagged_vec().unwrap()).unwrap();
        for i in 0..2 {
            let _ = b.verify_detached_signature(i, &payload, &aad, |_s, d| -> Result<(), ()> { verified = d.to_vec(); Ok(()) });
            check!("C06", verified.clone(), c2[i].clone(), format!("Sign detached signer {} create/verify aad_len={}", i, la));
            check!("C03,C06", c2[i].clone(), structure("Signature", &[&slot, &sslot, &aad, &payload]), format!("Sign detached signer {} create aad_len={}", i, la));
        }
        let mut c3: Vec<Vec<u8>> = vec![];
        let b = CoseSignBuilder::new().protected(hdr.clone()).payload(payload.clone())
            .add_created_signature(mk(), &aad, |d| { c3.push(d.to_vec()); vec![1] })
            .try_add_created_signature(mk(), &aad, |d| -> Result<Vec<u8>, ()> { c3.push(d.to_vec()); Ok(vec![2]) }).unwrap()
            .build();
        let b = CoseSign::from_slice(&b.to_vec().unwrap()).unwrap();
        for i in 0..2 {
            let _ = b.verify_signature(i, &aad, |_s, d| -> Result<(), ()> { verified = d.to_vec(); Ok(()) });
            check!("C06", verified.clone(), c3[i].clone(), format!("Sign signer {} create/verify aad_len={}", i, la));
        }
        }
        if relevant("C04,C06,C01") {
        let mut verified: Vec<u8> = vec![];
        let mut c4: Vec<u8> = vec![];
        let m0 = CoseMac0Builder::new().protected(hdr.clone()).payload(payload.clone()).try_create_tag(&aad, |d| -> Result<Vec<u8>, ()> { c4 = d.to_vec(); Ok(vec![3]) }).unwrap().build();
        let m0 = CoseMac0::from_slice(&m0.to_vec().unwrap()).unwrap();
        let _ = m0.verify_tag(&aad, |_t, d| -> Result<(), ()> { verified = d.to_vec(); Ok(()) });
        check!("C06", verified.clone(), c4.clone(), format!("Mac0 create/verify aad_len={}", la));
        }
        if relevant("C05,C06,C01") {
        let mut verified: Vec<u8> = vec![];
        let mut c5: Vec<u8> = vec![];
        let e0 = CoseEncrypt0Builder::new().protected(hdr.clone()).create_ciphertext(&payload, &aad, |_pt, d| { c5 = d.to_vec(); vec![4] }).build();
        let e0 = CoseEncrypt0::from_slice(&e0.to_vec().unwrap()).unwrap();
        let _ = e0.decrypt(&aad, |_c, d| -> Result<Vec<u8>, ()> { verified = d.to_vec(); Ok(vec![]) });
        check!("C06", verified.clone(), c5.clone(), format!("Encrypt0 create/decrypt aad_len={}", la));
        check!("C05,C06", c5.clone(), structure("Encrypt0", &[&slot, &aad]), format!("Encrypt0 create aad_len={}", la));
        }
        if relevant("C05,C06,C01") {
        
        // every remaining creating helper, fallible and infallible: what the caller's function is handed
        let mut got: Vec<u8> = vec![];
        let _ = CoseEncrypt0Builder::new().protected(hdr.clone()).try_create_ciphertext(&payload, &aad, |_pt, d| -> Result<Vec<u8>, ()> { got = d.to_vec(); Ok(vec![4]) });
        check!("C05,C06", got.clone(), structure("Encrypt0", &[&slot, &aad]), format!("Encrypt0 try_create aad_len={}", la));
        let _ = CoseEncryptBuilder::new().protected(hdr.clone()).create_ciphertext(&payload, &aad, |_pt, d| { got = d.to_vec(); vec![4] });
        check!("C05,C06", got.clone(), structure("Encrypt", &[&slot, &aad]), format!("Encrypt create aad_len={}", la));
        let _ = CoseEncryptBuilder::new().protected(hdr.clone()).try_create_ciphertext(&payload, &aad, |_pt, d| -> Result<Vec<u8>, ()> { got = d.to_vec(); Ok(vec![4]) });
        check!("C05,C06", got.clone(), structure("Encrypt", &[&slot, &aad]), format!("Encrypt try_create aad_len={}", la));
        for (c, name) in [(EncryptionContext::EncRecipient, "Enc_Recipient"), (EncryptionContext::MacRecipient, "Mac_Recipient"), (EncryptionContext::RecRecipient, "Rec_Recipient")] {
            let _ = CoseRecipientBuilder::new().protected(hdr.clone()).create_ciphertext(c, &payload, &aad, |_pt, d| { got = d.to_vec(); vec![4] });
            check!("C05,C06", got.clone(), structure(name, &[&slot, &aad]), format!("recipient create {} aad_len={}", name, la));
            let _ = CoseRecipientBuilder::new().protected(hdr.clone()).try_create_ciphertext(c, &payload, &aad, |_pt, d| -> Result<Vec<u8>, ()> { got = d.to_vec(); Ok(vec![4]) });
            check!("C05,C06", got.clone(), structure(name, &[&slot, &aad]), format!("recipient try_create {} aad_len={}", name, la));
            // the context is the caller's choice, whatever else the recipient holds (its own recipients, a ciphertext, headers)
            let inner = CoseRecipientBuilder::new().ciphertext(vec![1]).build();
            let _ = CoseRecipientBuilder::new().protected(hdr.clone()).add_recipient(inner.clone()).create_ciphertext(c, &payload, &aad, |_pt, d| { got = d.to_vec(); vec![4] });
            check!("C05,C06", got.clone(), structure(name, &[&slot, &aad]), format!("recipient (holding a recipient) create {} aad_len={}", name, la));
            let rc = CoseRecipientBuilder::new().protected(hdr.clone()).add_recipient(inner.clone()).add_recipient(inner.clone()).ciphertext(vec![2]).build();
            let _ = rc.decrypt(c, &aad, |_ct, d| -> Result<Vec<u8>, ()> { got = d.to_vec(); Ok(vec![]) });
            check!("C05,C06", got.clone(), structure(name, &[&slot, &aad]), format!("recipient (holding recipients) decrypt {} aad_len={}", name, la));
        }
        }
        if relevant("C04,C06,C01") {
        let mut got: Vec<u8> = vec![];
        let _ = CoseMacBuilder::new().protected(hdr.clone()).payload(payload.clone()).create_tag(&aad, |d| { got = d.to_vec(); vec![3] });
        check!("C04,C06", got.clone(), structure("MAC", &[&slot, &aad, &payload]), format!("Mac create aad_len={}", la));
        let _ = CoseMacBuilder::new().protected(hdr.clone()).payload(payload.clone()).try_create_tag(&aad, |d| -> Result<Vec<u8>, ()> { got = d.to_vec(); Ok(vec![3]) });
        check!("C04,C06", got.clone(), structure("MAC", &[&slot, &aad, &payload]), format!("Mac try_create aad_len={}", la));
        let _ = CoseMac0Builder::new().protected(hdr.clone()).payload(payload.clone()).create_tag(&aad, |d| { got = d.to_vec(); vec![3] });
        check!("C04,C06", got.clone(), structure("MAC0", &[&slot, &aad, &payload]), format!("Mac0 create aad_len={}", la));
        }
        if relevant("C03,C06,C01") {
        let mut got: Vec<u8> = vec![];
        let _ = CoseSign1Builder::new().protected(hdr.clone()).payload(payload.clone()).try_create_signature(&aad, |d| -> Result<Vec<u8>, ()> { got = d.to_vec(); Ok(vec![3]) });
        check!("C03,C06", got.clone(), structure("Signature1", &[&slot, &aad, &payload]), format!("Sign1 try_create aad_len={}", la));
        let _ = CoseSign1Builder::new().protected(hdr.clone()).create_detached_signature(&payload, &aad, |d| { got = d.to_vec(); vec![3] });
        check!("C03,C06", got.clone(), structure("Signature1", &[&slot, &aad, &payload]), format!("Sign1 create_detached aad_len={}", la));
        let _ = CoseSign1Builder::new().protected(hdr.clone()).try_create_detached_signature(&payload, &aad, |d| -> Result<Vec<u8>, ()> { got = d.to_vec(); Ok(vec![3]) });
        check!("C03,C06", got.clone(), structure("Signature1", &[&slot, &aad, &payload]), format!("Sign1 try_create_detached aad_len={}", la));
        }
    }
    // documented refusals: the operation panics instead of handing the caller's function something else
    {
        use std::panic::{catch_unwind, AssertUnwindSafe};
        let hook = std::panic::take_hook();
        std::panic::set_hook(Box::new(|_| {}));
        let mut refused: Vec<(&str, &str, bool)> = vec![];
        let r = CoseRecipient { ciphertext: Some(vec![1]), ..Default::default() };
        for (c, name) in [(EncryptionContext::CoseEncrypt, "recipient decrypt with context Encrypt"), (EncryptionContext::CoseEncrypt0, "recipient decrypt with context Encrypt0")] {
            let p = catch_unwind(AssertUnwindSafe(|| { let _ = r.decrypt(c, b"", |_c, _d| -> Result<Vec<u8>, ()> { Ok(vec![]) }); })).is_err();
            refused.push(("C05", name, p));
        }
        for (c, name) in [(EncryptionContext::CoseEncrypt, "recipient create_ciphertext with context Encrypt"), (EncryptionContext::CoseEncrypt0, "recipient create_ciphertext with context Encrypt0")] {
            let p = catch_unwind(AssertUnwindSafe(|| { let _ = CoseRecipientBuilder::new().create_ciphertext(c, b"x", b"", |_p, _d| vec![1]); })).is_err();
            refused.push(("C05", name, p));
            let p = catch_unwind(AssertUnwindSafe(|| { let _ = CoseRecipientBuilder::new().try_create_ciphertext(c, b"x", b"", |_p, _d| -> Result<Vec<u8>, ()> { Ok(vec![1]) }); })).is_err();
            refused.push(("C05", name, p));
        }
        let p = catch_unwind(AssertUnwindSafe(|| { let _ = CoseEncrypt0::default().decrypt(b"", |_c, _d| -> Result<Vec<u8>, ()> { Ok(vec![]) }); })).is_err();
        refused.push(("C05", "Encrypt0 decrypt without ciphertext", p));
        let p = catch_unwind(AssertUnwindSafe(|| { let _ = CoseEncrypt::default().decrypt(b"", |_c, _d| -> Result<Vec<u8>, ()> { Ok(vec![]) }); })).is_err();
        refused.push(("C05", "Encrypt decrypt without ciphertext", p));
        let p = catch_unwind(AssertUnwindSafe(|| { let _ = CoseMac0::default().verify_tag(b"", |_t, _d| -> Result<(), ()> { Ok(()) }); })).is_err();
        refused.push(("C04", "Mac0 verify_tag without payload", p));
        let p = catch_unwind(AssertUnwindSafe(|| { let _ = CoseMac::default().verify_tag(b"", |_t, _d| -> Result<(), ()> { Ok(()) }); })).is_err();
        refused.push(("C04", "Mac verify_tag without payload", p));
        let p = catch_unwind(AssertUnwindSafe(|| { let _ = CoseMac0Builder::new().create_tag(b"", |_d| vec![1]); })).is_err();
        refused.push(("C04", "Mac0 create_tag without payload", p));
        let p = catch_unwind(AssertUnwindSafe(|| { let _ = CoseMac0Builder::new().try_create_tag(b"", |_d| -> Result<Vec<u8>, ()> { Ok(vec![1]) }); })).is_err();
        refused.push(("C04", "Mac0 try_create_tag without payload", p));
        let p = catch_unwind(AssertUnwindSafe(|| { let _ = CoseMacBuilder::new().create_tag(b"", |_d| vec![1]); })).is_err();
        refused.push(("C04", "Mac create_tag without payload", p));
        let p = catch_unwind(AssertUnwindSafe(|| { let _ = CoseMacBuilder::new().try_create_tag(b"", |_d| -> Result<Vec<u8>, ()> { Ok(vec![1]) }); })).is_err();
        refused.push(("C04", "Mac try_create_tag without payload", p));
        let p = catch_unwind(AssertUnwindSafe(|| { let s = CoseSign1 { payload: Some(vec![1]), ..Default::default() }; let _ = s.tbs_detached_data(b"x", b""); })).is_err();
        refused.push(("C03", "Sign1 tbs_detached_data with an embedded payload", p));
        let p = catch_unwind(AssertUnwindSafe(|| { let s = CoseSign::default(); let _ = s.verify_signature(0, b"", |_s, _d| -> Result<(), ()> { Ok(()) }); })).is_err();
        refused.push(("C03", "Sign verify_signature with an out-of-range index", p));
        std::panic::set_hook(hook);
        for (tag, name, panicked) in refused {
            n += 1;
            if !panicked && relevant(tag) { println!("FAILING-INPUT {}: not refused (no panic)", name); return 1; }
        }
    }
    println!("probe structures: {} comparisons, no disagreement", n);
    0
}

// ---------------------------------------------------------------- generated inputs (deterministic, seeded by VERIF_SEED)
/// xorshift64*: small deterministic generator so that a run is reproducible from its seed
pub struct Rng(pub u64);
/// generated-case counts are multiplied by PROBE_SCALE (the thorough tier sets it)
pub fn scale(n: u64) -> u64 { n * std::env::var("PROBE_SCALE").ok().and_then(|x| x.parse::<u64>().ok()).unwrap_or(1).max(1) }
impl Rng {
    pub fn from_env() -> Rng { let s = std::env::var("VERIF_SEED").ok().and_then(|x| x.parse::<u64>().ok()).unwrap_or(0); Rng(0x9E3779B97F4A7C15u64 ^ s.wrapping_mul(0xD1B54A32D192ED03).wrapping_add(1)) }
    pub fn next(&mut self) -> u64 { let mut x = self.0; x ^= x >> 12; x ^= x << 25; x ^= x >> 27; self.0 = x; x.wrapping_mul(0x2545F4914F6CDD1D) }
    pub fn below(&mut self, n: u64) -> u64 { if n == 0 { 0 } else { self.next() % n } }
    pub fn pick<T: Clone>(&mut self, v: &[T]) -> T { v[self.below(v.len() as u64) as usize].clone() }
    pub fn chance(&mut self, pct: u64) -> bool { self.below(100) < pct }
}
fn gen_text(r: &mut Rng) -> String {
    let alpha = ['a', 'b', 'c', '/', '/', ' ', '\t', '\n', 'é', '\u{a0}', 'z', '-', '+', ';'];
    let n = r.below(7);
    (0..n).map(|_| r.pick(&alpha)).collect()
}
fn gen_int(r: &mut Rng) -> i128 {
    let base = r.pick(&[0i128, 1, 2, 3, 4, 5, 6, 7, 8, 9, 10, 23, 24, 38, 60, 255, 256, 257, 65535, 65536, 1 << 31, 1 << 32, (1 << 63) - 1, 1 << 63, (1 << 64) - 1]);
    let d = r.below(3) as i128 - 1;
    let x = base + d;
    let x = if r.chance(40) { -1 - x } else { x };
    x.clamp(-(1i128 << 64), (1i128 << 64) - 1)
}
fn gen_bytes(r: &mut Rng) -> Vec<u8> { let n = r.pick(&[0u64, 0, 1, 1, 2, 3]); (0..n).map(|_| r.below(256) as u8).collect() }
fn gen_any(r: &mut Rng) -> Value {
    match r.below(9) {
        0 => Value::Integer(Integer::try_from(gen_int(r)).unwrap()), 1 => Value::Text(gen_text(r)), 2 => Value::Bytes(gen_bytes(r)), 3 => Value::Null, 4 => Value::Bool(true),
        5 => Value::Array(vec![]), 6 => Value::Map(vec![]), 7 => Value::Float(r.pick(&[1.5f64, 2.0, f64::NAN, f64::INFINITY, -0.0])), _ => Value::Tag(r.below(100), Box::new(Value::Null)),
    }
}
fn ser(v: &Value) -> Vec<u8> { let mut b = vec![]; ciborium::ser::into_writer(v, &mut b).unwrap(); b }
fn gen_prot(r: &mut Rng, depth: usize) -> Value {
    match r.below(10) {
        0 | 1 | 2 => Value::Bytes(vec![]),
        3 => Value::Bytes(gen_bytes(r)),                                   // usually not a map
        4 => { let mut b = ser(&gen_header(r, depth + 1)); b.extend(gen_bytes(r)); Value::Bytes(b) }   // possibly trailing bytes
        5 => gen_any(r),
        _ => Value::Bytes(ser(&gen_header(r, depth + 1))),
    }
}
fn gen_sig(r: &mut Rng, depth: usize) -> Value {
    let mut a = vec![gen_prot(r, depth), if depth < 3 && r.chance(85) { gen_header(r, depth + 1) } else { Value::Map(vec![]) }, if r.chance(90) { Value::Bytes(gen_bytes(r)) } else { gen_any(r) }];
    if r.chance(8) { a.pop(); } else if r.chance(8) { a.push(Value::Null); }
    Value::Array(a)
}
/// a header-map-like value: mostly well-typed pairs, with every kind of defect mixed in
pub fn gen_header(r: &mut Rng, depth: usize) -> Value {
    let n = r.pick(&[0u64, 1, 1, 2, 2, 3, 4, 5]);
    let mut m = vec![];
    for _ in 0..n {
        let label: Value = match r.below(12) { 0..=7 => Value::from(1 + r.below(7) as i64), 8 => Value::Integer(Integer::try_from(gen_int(r)).unwrap()), 9 => Value::Text(gen_text(r)), 10 => Value::from(r.pick(&[0i64, 8, 9, 33, -1])), _ => gen_any(r) };
        let lab = label_ref(&label);
        let good = r.chance(75);
        let val = if !good { gen_any(r) } else { match lab {
            Some(Ok(1)) => if r.chance(70) { Value::from(r.pick(&[-7i64, -8, 1, 3, -65537, -70000, -65536, -65535, 0, 4, 100])) } else { Value::Text(gen_text(r)) },
            Some(Ok(2)) => Value::Array((0..r.below(3)).map(|_| if r.chance(70) { Value::from(r.pick(&[1i64, 2, 4, 7, 33, 8, 11])) } else { Value::Text(gen_text(r)) }).collect()),
            Some(Ok(3)) => if r.chance(60) { Value::Text(gen_text(r)) } else { Value::Integer(Integer::try_from(gen_int(r)).unwrap()) },
            Some(Ok(4)) | Some(Ok(5)) | Some(Ok(6)) => Value::Bytes(gen_bytes(r)),
            Some(Ok(7)) => if depth >= 3 { Value::Array(vec![]) } else if r.chance(50) { gen_sig(r, depth) } else { Value::Array((0..r.below(3)).map(|_| gen_sig(r, depth)).collect()) },
            _ => gen_any(r) } };
        m.push((label, val));
    }
    Value::Map(m)
}
/// a long, otherwise valid map (9..=14 distinct extra labels) in which one label occurs twice at random positions
fn gen_long_dup(r: &mut Rng, first: Option<(Value, Value)>, extra: &dyn Fn(i64) -> Value) -> Value {
    let n = 9 + r.below(6) as i64;
    let mut m: Vec<(Value, Value)> = vec![];
    if let Some(f) = first { m.push(f); }
    for i in 0..n { m.push((extra(i), Value::from(i))); }
    if r.chance(80) {
        let a = r.below(m.len() as u64) as usize;
        let dup = m[a].clone();
        let b2 = (a + 1 + r.below((m.len() - a) as u64) as usize).min(m.len());
        m.insert(b2, (dup.0, Value::from(99)));
    }
    Value::Map(m)
}
/// a COSE_Key-like map
pub fn gen_key(r: &mut Rng) -> Value {
    let n = r.pick(&[0u64, 1, 2, 2, 3, 4, 5]);
    let mut m = vec![];
    if r.chance(85) { m.push((Value::from(1), if r.chance(85) { Value::from(r.pick(&[1i64, 2, 3, 4, 5, 6, 0, 7, 99])) } else { Value::Text(gen_text(r)) })); }
    for _ in 0..n {
        let label: Value = match r.below(12) { 0..=5 => Value::from(1 + r.below(5) as i64), 6 | 7 => Value::Integer(Integer::try_from(gen_int(r)).unwrap()), 8 => Value::Text(gen_text(r)), 9 => Value::from(r.pick(&[0i64, -1, -2, -3, -4, 6])), _ => gen_any(r) };
        let lab = label_ref(&label);
        let val = if !r.chance(75) { gen_any(r) } else { match lab {
            Some(Ok(1)) => Value::from(r.pick(&[1i64, 2, 4, 0, 99])),
            Some(Ok(2)) | Some(Ok(5)) => Value::Bytes(gen_bytes(r)),
            Some(Ok(3)) => if r.chance(70) { Value::from(r.pick(&[-7i64, 1, 3, -65537, -65536, 0, 100])) } else { Value::Text(gen_text(r)) },
            Some(Ok(4)) => Value::Array((0..r.below(4)).map(|_| if r.chance(75) { Value::from(r.pick(&[1i64, 2, 3, 4, 9, 10, 0, 11])) } else { Value::Text(gen_text(r)) }).collect()),
            _ => gen_any(r) } };
        m.push((label, val));
    }
    if r.chance(30) && m.len() > 1 { let k = r.below(m.len() as u64) as usize; let e = m.remove(k); m.push(e); }
    Value::Map(m)
}
/// a CWT-claims-set-like map
pub fn gen_claims(r: &mut Rng) -> Value {
    let n = r.pick(&[0u64, 1, 2, 2, 3, 4]);
    let mut m = vec![];
    for _ in 0..n {
        let label: Value = match r.below(12) { 0..=6 => Value::from(1 + r.below(7) as i64), 7 => Value::from(r.pick(&[8i64, 9, 10, 38, 39, 40, 41, 0, 11, 12])), 8 => Value::Integer(Integer::try_from(gen_int(r)).unwrap()),
            9 => Value::Text(gen_text(r)), 10 => Value::from(r.pick(&[-65536i64, -65537, -70000, -257, -1])), _ => gen_any(r) };
        let val = if !r.chance(75) { gen_any(r) } else { match label_ref(&label) {
            Some(Ok(1)) | Some(Ok(2)) | Some(Ok(3)) => Value::Text(gen_text(r)),
            Some(Ok(4)) | Some(Ok(5)) | Some(Ok(6)) => if r.chance(60) { Value::Integer(Integer::try_from(gen_int(r)).unwrap()) } else { Value::Float(r.pick(&[1.5f64, 2.0, 1700000000.0, f64::NAN, f64::INFINITY, -0.0])) },
            Some(Ok(7)) => Value::Bytes(gen_bytes(r)),
            _ => gen_any(r) } };
        m.push((label, val));
    }
    Value::Map(m)
}
// ---------------------------------------------------------------- reference header-map predicate (RFC 8152 3.1)
fn i128_of(i: &Integer) -> i128 { i128::from(*i) }
fn label_ref(v: &Value) -> Option<Result<i64, String>> {
    match v {
        Value::Integer(i) => i64::try_from(i128_of(i)).ok().map(Ok),
        Value::Text(t) => Some(Err(t.clone())),
        _ => None,
    }
}
const HDR_PARAMS: [i64; 16] = [0, 1, 2, 3, 4, 5, 6, 7, 9, 10, 32, 33, 34, 35, 256, 257];
const CONTENT_FORMATS: [i64; 48] = [0, 16, 17, 18, 40, 41, 42, 47, 50, 51, 52, 60, 61, 62, 63, 96, 97, 98, 101, 102, 110, 111, 112, 113, 114, 115, 256, 271, 280, 281, 282, 283,
    284, 285, 286, 287, 310, 311, 320, 322, 432, 10000, 10001, 11050, 11060, 11542, 11543, 11544];
const ALGS: [i64; 65] = [-65535, -260, -259, -258, -257, -47, -46, -45, -44, -43, -42, -41, -40, -39, -38, -37, -36, -35, -34, -33, -32, -31, -30, -29, -28, -27, -26, -25,
    -18, -17, -16, -15, -14, -13, -12, -11, -10, -8, -7, -6, -5, -4, -3, 0, 1, 2, 3, 4, 5, 6, 7, 10, 11, 12, 13, 14, 15, 24, 25, 26, 30, 31, 32, 33, 34];
fn nonempty_bstr(v: &Value) -> bool { matches!(v, Value::Bytes(b) if !b.is_empty()) }
fn sig_ref(v: &Value, depth: usize) -> bool {
    match v {
        Value::Array(a) if a.len() == 3 => prot_ref(&a[0], depth) && hdr_ref(&a[1], depth) && matches!(a[2], Value::Bytes(_)),
        _ => false,
    }
}
fn prot_ref(v: &Value, depth: usize) -> bool {
    match v {
        Value::Bytes(b) if b.is_empty() => true,
        Value::Bytes(b) => {
            if depth >= 16 { return false; }
            let mut s = &b[..];
            match ciborium::de::from_reader::<Value, _>(&mut s) { Ok(inner) if s.is_empty() => hdr_ref(&inner, depth + 1), _ => false }
        }
        _ => false,
    }
}
pub fn hdr_ref(v: &Value, depth: usize) -> bool {
    let m = match v { Value::Map(m) => m, _ => return false };
    let mut seen: Vec<Result<i64, String>> = vec![];
    let (mut iv, mut piv) = (false, false);
    for (k, val) in m {
        let l = match label_ref(k) { Some(l) => l, None => return false };
        if seen.contains(&l) { return false; }
        seen.push(l.clone());
        let ok = match l {
            Ok(1) => match val { Value::Integer(i) => i64::try_from(i128_of(i)).map(|x| ALGS.contains(&x) || x < -65536).unwrap_or(false), Value::Text(_) => true, _ => false },
            Ok(2) => match val { Value::Array(a) if !a.is_empty() => a.iter().all(|e| match e {
                Value::Integer(i) => i64::try_from(i128_of(i)).map(|x| HDR_PARAMS.contains(&x)).unwrap_or(false), Value::Text(_) => true, _ => false }), _ => false },
            Ok(3) => match val { Value::Integer(i) => i64::try_from(i128_of(i)).map(|x| CONTENT_FORMATS.contains(&x)).unwrap_or(false),
                Value::Text(t) => !t.is_empty() && t.trim() == t && t.matches('/').count() == 1, _ => false },
            Ok(4) => nonempty_bstr(val),
            Ok(5) => { iv = true; nonempty_bstr(val) }
            Ok(6) => { piv = true; nonempty_bstr(val) }
            Ok(7) => match val { Value::Array(a) if !a.is_empty() => match &a[0] {
                Value::Bytes(_) => sig_ref(val, depth), Value::Array(_) => a.iter().all(|s| sig_ref(s, depth)), _ => false }, _ => false },
            _ => true,
        };
        if !ok || (iv && piv) { return false; }
    }
    true
}
fn value_palette() -> Vec<Value> {
    let sig = Value::Array(vec![Value::Bytes(vec![]), Value::Map(vec![]), Value::Bytes(vec![1])]);
    vec![
        Value::from(-7), Value::from(1), Value::from(99999), Value::from(-70000), Value::Integer(Integer::try_from(1i128 << 63).unwrap()),
        Value::Text("a/b".into()), Value::Text("ab".into()), Value::Text(" a/b".into()), Value::Text("a/b/c".into()), Value::Text("".into()),
        Value::Text("a/".into()), Value::Text("/b".into()), Value::Text("/".into()), Value::Text("a/b ".into()), Value::Text("é/ü".into()),
        Value::Text("a/b\n".into()), Value::Text("\ta/b".into()), Value::Text("a/b\u{a0}".into()), Value::Text("text/plain; charset=utf-8".into()),
        Value::Bytes(vec![]), Value::Bytes(vec![1, 2]), Value::Array(vec![]), Value::Array(vec![Value::from(1)]), Value::Array(vec![Value::Text("x".into())]),
        Value::Array(vec![Value::from(8)]), sig.clone(), Value::Array(vec![sig.clone(), sig.clone()]), Value::Array(vec![sig.clone(), Value::from(1)]),
        Value::Array(vec![Value::Bytes(vec![0xa0, 0x00]), Value::Map(vec![]), Value::Bytes(vec![])]),
        Value::Null, Value::Bool(true), Value::Map(vec![]), Value::Float(1.5), Value::Tag(1, Box::new(Value::from(1))),
    ]
}
fn label_palette() -> Vec<Value> {
    let mut v: Vec<Value> = (0..=8).map(|i| Value::from(i as i64)).collect();
    v.extend([Value::from(-1), Value::from(i64::MAX), Value::from(i64::MIN), Value::Integer(Integer::try_from(1i128 << 63).unwrap()), Value::Text("a".into()), Value::Text("".into()),
              Value::Bytes(vec![1]), Value::Null]);
    v
}
fn cmp_header_fields(v: &Value, h: &Header) -> Option<String> {
    // independent extraction of each typed field from the wire map
    let m = match v { Value::Map(m) => m, _ => return Some("not a map".into()) };
    let get = |n: i64| m.iter().find(|(k, _)| matches!(label_ref(k), Some(Ok(x)) if x == n)).map(|(_, v)| v.clone());
    let b = |n: i64| match get(n) { Some(Value::Bytes(b)) => b, _ => vec![] };
    if h.key_id != b(4) { return Some("key_id".into()); }
    if h.iv != b(5) { return Some("iv".into()); }
    if h.partial_iv != b(6) { return Some("partial_iv".into()); }
    if h.alg.is_some() != get(1).is_some() { return Some("alg presence".into()); }
    if let (Some(a), Some(w)) = (&h.alg, get(1)) { if a.clone().to_cbor_value().ok() != Some(w) { return Some("alg value".into()); } }
    if h.content_type.is_some() != get(3).is_some() { return Some("content_type presence".into()); }
    if let (Some(a), Some(w)) = (&h.content_type, get(3)) { if a.clone().to_cbor_value().ok() != Some(w) { return Some("content_type value".into()); } }
    let crit: Vec<Value> = h.crit.iter().map(|c| c.clone().to_cbor_value().unwrap()).collect();
    match get(2) { Some(Value::Array(a)) => if a != crit { return Some("crit".into()); }, None => if !crit.is_empty() { return Some("crit".into()); }, _ => return Some("crit".into()) }
    let ncs = match get(7) { Some(Value::Array(a)) => if matches!(a[0], Value::Bytes(_)) { 1 } else { a.len() }, _ => 0 };
    if h.counter_signatures.len() != ncs { return Some("counter_signatures".into()); }
    let rest: Vec<(Value, Value)> = m.iter().filter(|(k, _)| !matches!(label_ref(k), Some(Ok(x)) if (1..=7).contains(&x))).cloned().collect();
    let got: Vec<(Value, Value)> = h.rest.iter().map(|(l, v)| (l.clone().to_cbor_value().unwrap(), v.clone())).collect();
    if ser(&Value::Map(rest.clone())) != ser(&Value::Map(got.clone())) { return Some("rest (extra parameters / order)".into()); }   // byte comparison: NaN == NaN
    None
}
/// C08 / C12 (decode) / C02: header maps
pub fn probe_headers() -> i32 {
    let labels = label_palette();
    let values = value_palette();
    let mut maps: Vec<Vec<(Value, Value)>> = vec![vec![]];
    for l in &labels { for v in &values { maps.push(vec![(l.clone(), v.clone())]); } }
    // two pairs: every ordered pair of labels, values drawn to be individually acceptable for typed labels plus a few bad ones
    let good = |l: &Value| -> Vec<Value> { match label_ref(l) {
        Some(Ok(1)) => vec![Value::from(-7), Value::Text("x".into())], Some(Ok(2)) => vec![Value::Array(vec![Value::from(1)])], Some(Ok(3)) => vec![Value::Text("a/b".into()), Value::from(60)],
        Some(Ok(4)) | Some(Ok(5)) | Some(Ok(6)) => vec![Value::Bytes(vec![1]), Value::Bytes(vec![])],
        Some(Ok(7)) => vec![Value::Array(vec![Value::Bytes(vec![]), Value::Map(vec![]), Value::Bytes(vec![1])])], _ => vec![Value::from(1), Value::Null] } };
    for l1 in &labels { for l2 in &labels { for v1 in good(l1) { for v2 in good(l2) { maps.push(vec![(l1.clone(), v1.clone()), (l2.clone(), v2.clone())]); } } } }
    // three pairs: duplicates and IV / Partial IV in every position around a third pair
    for l1 in labels.iter().take(11) { for l2 in labels.iter().take(11) { for l3 in labels.iter().take(11) {
        maps.push(vec![(l1.clone(), good(l1)[0].clone()), (l2.clone(), good(l2)[0].clone()), (l3.clone(), good(l3)[0].clone())]);
    } } }
    // generated header maps (seeded): nested counter signatures, protected byte strings, whitespace in content types, boundary integers
    { let mut r = Rng::from_env(); for _ in 0..scale(6000) { if let Value::Map(m) = gen_header(&mut r, 0) { maps.push(m); } }
      for _ in 0..scale(300) { if let Value::Map(m) = gen_long_dup(&mut r, None, &|i| if i % 3 == 0 { Value::Text(format!("p{}", i)) } else { Value::from(100 + i) }) { maps.push(m); } } }
    let mut n = 0u64;
    let mut accepted = 0u64;
    for m in &maps {
        let v = Value::Map(m.clone());
        for ctx in 0..3 {
            n += 1;
            let want = hdr_ref(&v, 0);
            if want && ctx == 0 { accepted += 1; }
            let (got, fields): (bool, Option<String>) = match ctx {
                0 => match Header::from_cbor_value(v.clone()) { Ok(h) => (true, cmp_header_fields(&v, &h)), Err(_) => (false, None) },
                1 => { let mut b = vec![]; ciborium::ser::into_writer(&v, &mut b).unwrap();
                       match ProtectedHeader::from_cbor_bstr(Value::Bytes(b.clone())) { Ok(p) => (true, if p.original_data.as_deref() != Some(&b[..]) { Some("original_data".into()) } else { cmp_header_fields(&v, &p.header) }), Err(_) => (false, None) } }
                _ => { let msg = Value::Array(vec![Value::Bytes(vec![]), v.clone(), Value::Null, Value::Bytes(vec![])]);
                       match CoseSign1::from_cbor_value(msg) { Ok(s) => (true, cmp_header_fields(&v, &s.unprotected)), Err(_) => (false, None) } }
            };
            let mut b = vec![]; ciborium::ser::into_writer(&v, &mut b).unwrap();
            if got != want { let dup = { let ls: Vec<_> = m.iter().map(|(k, _)| label_ref(k)).collect(); (0..ls.len()).any(|a| (0..a).any(|b2| ls[a].is_some() && ls[a] == ls[b2])) }; let tags = if dup { "C08,C09,C12" } else { "C08,C09,C17" }; if report(tags, format!("header map {} (context {}): crate {} it, RFC 8152 3.1 says {}", hex(&b), ["standalone", "protected bstr", "unprotected of COSE_Sign1"][ctx],
                if got { "accepts" } else { "rejects" }, if want { "accept" } else { "reject" })) { return 1; } }
            if let Some(f) = fields { let tags = if f == "original_data" { "C02,C09" } else { "C08,C09" }; if report(tags, format!("header map {} (context {}): field {} does not equal the wire value", hex(&b), ctx, f)) { return 1; } }
        }
    }
    // C12, encode side: an in-memory header whose extras repeat a label, or name a populated typed field, must not encode
    {
        let sig = CoseSignature { signature: vec![1], ..Default::default() };
        let mut cases: Vec<(String, Header)> = vec![];
        let base = |f: &dyn Fn(&mut Header)| { let mut h = Header::default(); f(&mut h); h };
        let typed: Vec<(i64, Header)> = vec![
            (1, base(&|h| h.alg = Some(Algorithm::Assigned(iana::Algorithm::ES256)))),
            (2, base(&|h| h.crit = vec![RegisteredLabel::Assigned(iana::HeaderParameter::Alg)])),
            (3, base(&|h| h.content_type = Some(ContentType::Text("a/b".into())))),
            (4, base(&|h| h.key_id = vec![1])), (5, base(&|h| h.iv = vec![1])), (6, base(&|h| h.partial_iv = vec![1])),
            (7, base(&|h| h.counter_signatures = vec![sig.clone()])), (7, base(&|h| h.counter_signatures = vec![sig.clone(), sig.clone()])),
            (7, base(&|h| h.counter_signatures = vec![sig.clone(), sig.clone(), sig.clone()])),
        ];
        for (l, h) in &typed { let mut h2 = h.clone(); h2.rest.push((Label::Int(*l), Value::Null)); cases.push((format!("typed field {} populated and extra label {}", l, l), h2)); }
        for l in [Label::Int(0), Label::Int(8), Label::Int(-1), Label::Text("x".into())] {
            let mut h2 = Header::default(); h2.rest.push((l.clone(), Value::from(1))); h2.rest.push((Label::Int(99), Value::Null)); h2.rest.push((l.clone(), Value::from(2)));
            cases.push((format!("extra label {:?} twice", l), h2));
        }
        for (what, h) in cases {
            n += 1;
            match h.clone().to_cbor_value() {
                Err(CoseError::DuplicateMapKey) => {}
                other => { if report("C12", format!("in-memory header with {}: to_cbor_value gives {:?}, want Err(DuplicateMapKey)", what, other.map(|v| { let mut b = vec![]; ciborium::ser::into_writer(&v, &mut b).unwrap(); hex(&b) }))) { return 1; } }
            }
            let s1 = CoseSign1 { unprotected: h.clone(), ..Default::default() };
            if s1.to_vec().is_ok() { if report("C12", format!("COSE_Sign1 whose unprotected header has {}: encodes", what)) { return 1; } }
            let p1 = CoseSign1 { protected: ProtectedHeader { original_data: None, header: h.clone() }, ..Default::default() };
            if p1.to_vec().is_ok() { if report("C12", format!("COSE_Sign1 whose in-memory protected header has {}: encodes", what)) { return 1; } }
        }
        // keys
        let mut k = CoseKeyBuilder::new_symmetric_key(vec![1]).key_id(vec![2]).algorithm(iana::Algorithm::A128GCM).add_key_op(iana::KeyOperation::Encrypt).base_iv(vec![3]).build();
        for l in 1..=5i64 { let mut k2 = k.clone(); k2.params.push((Label::Int(l), Value::Null)); n += 1;
            if !matches!(k2.to_cbor_value(), Err(CoseError::DuplicateMapKey)) { if report("C12", format!("COSE_Key with typed field {} populated and extra label {}: encodes", l, l)) { return 1; } } }
        k.params.push((Label::Int(-1), Value::from(9))); n += 1;
        if !matches!(k.to_cbor_value(), Err(CoseError::DuplicateMapKey)) { if report("C12", format!("COSE_Key with extra label -1 twice: encodes")) { return 1; } }
    }
    println!("probe headers: {} decodes compared with the reference predicate ({} of {} maps well-formed), no disagreement", n, accepted, maps.len());
    0
}

/// C13 / C14 / C09: framing of byte-level decoding, tags
pub fn probe_framing() -> i32 {
    let sign1 = vec![0x84, 0x43, 0xa1, 0x01, 0x26, 0xa0, 0x41, 0x01, 0x41, 0x02];
    let enc0 = vec![0x83, 0x40, 0xa0, 0xf6];
    let mut n = 0u64;
    macro_rules! framing { ($t:ty, $body:expr, $name:expr) => {{
        let body: Vec<u8> = $body;
        if <$t>::from_slice(&body).is_err() { if report("C13", format!("{} rejects {}", $name, hex(&body))) { return 1; } }
        for cut in 0..body.len() { n += 1; if <$t>::from_slice(&body[..cut]).is_ok() { if report("C13", format!("{} accepts the proper prefix {}", $name, hex(&body[..cut]))) { return 1; } } }
        for suf in [vec![0u8], vec![0xf6], vec![0xff], body.clone()] { n += 1; let mut b = body.clone(); b.extend(&suf);
            match <$t>::from_slice(&b) { Err(CoseError::ExtraneousData) => {}, other => { if report("C13", format!("{} on {} gives {:?}, want ExtraneousData", $name, hex(&b), other.map(|_| "Ok"))) { return 1; } } } }
        let via_value = <$t>::from_cbor_value(ciborium::de::from_reader(&body[..]).unwrap());
        if via_value.ok() != <$t>::from_slice(&body).ok() { if report("C13", format!("{}: from_slice and from_cbor_value disagree on {}", $name, hex(&body))) { return 1; } }
    }}; }
    // the outer array / map head written with a longer argument or as an indefinite-length container is the same item: the byte
    // API and the value API take it alike, with the same result as for the shortest form
    macro_rules! heads { ($t:ty, $body:expr, $name:expr) => {{
        let body: Vec<u8> = $body;
        let (major, cnt) = (body[0] >> 5, (body[0] & 0x1f) as u8);
        let base = <$t>::from_slice(&body).ok();
        let mut variants: Vec<Vec<u8>> = vec![];
        for hd in [vec![(major << 5) | 24, cnt], vec![(major << 5) | 25, 0, cnt], vec![(major << 5) | 26, 0, 0, 0, cnt], vec![(major << 5) | 27, 0, 0, 0, 0, 0, 0, 0, cnt]] { let mut b = hd; b.extend(&body[1..]); variants.push(b); }
        { let mut b = vec![(major << 5) | 31]; b.extend(&body[1..]); b.push(0xff); variants.push(b); }
        for v in variants {
            n += 1;
            let a = <$t>::from_slice(&v).ok();
            let via = ciborium::de::from_reader::<Value, _>(&v[..]).ok().and_then(|x| <$t>::from_cbor_value(x).ok());
            if a != via { if report("C13", format!("{}: from_slice and from_cbor_value(parse) disagree on {} (the item {} with a longer / indefinite outer head)", $name, hex(&v), hex(&body))) { return 1; } }
            if a != base { if report("C13,C09", format!("{}: {} (the item {} with a longer / indefinite outer head) does not decode like the shortest form", $name, hex(&v), hex(&body))) { return 1; } }
        }
    }}; }
    heads!(CoseSign1, sign1.clone(), "CoseSign1"); heads!(CoseEncrypt0, enc0.clone(), "CoseEncrypt0"); heads!(CoseMac0, vec![0x84, 0x40, 0xa0, 0xf6, 0x41, 0x01], "CoseMac0");
    heads!(CoseSign, vec![0x84, 0x40, 0xa0, 0xf6, 0x81, 0x83, 0x40, 0xa0, 0x41, 0x01], "CoseSign"); heads!(CoseMac, vec![0x85, 0x40, 0xa0, 0xf6, 0x41, 0x01, 0x80], "CoseMac");
    heads!(CoseEncrypt, vec![0x84, 0x40, 0xa0, 0xf6, 0x80], "CoseEncrypt"); heads!(CoseRecipient, vec![0x83, 0x40, 0xa0, 0xf6], "CoseRecipient"); heads!(CoseSignature, vec![0x83, 0x40, 0xa0, 0x41, 0x01], "CoseSignature");
    heads!(Header, vec![0xa1, 0x01, 0x26], "Header"); heads!(CoseKey, vec![0xa1, 0x01, 0x04], "CoseKey"); heads!(CoseKeySet, vec![0x81, 0xa1, 0x01, 0x04], "CoseKeySet");
    heads!(cwt::ClaimsSet, vec![0xa1, 0x01, 0x61, b'i'], "ClaimsSet"); heads!(CoseKdfContext, vec![0x84, 0x01, 0x83, 0xf6, 0xf6, 0xf6, 0x83, 0xf6, 0xf6, 0xf6, 0x82, 0x18, 0x80, 0x40], "CoseKdfContext");
    framing!(CoseSign1, sign1.clone(), "CoseSign1");
    framing!(CoseEncrypt0, enc0.clone(), "CoseEncrypt0");
    framing!(CoseMac0, vec![0x84, 0x40, 0xa0, 0xf6, 0x41, 0x01], "CoseMac0");
    framing!(Header, vec![0xa1, 0x01, 0x26], "Header");
    framing!(ProtectedHeader, vec![0xa1, 0x01, 0x26], "ProtectedHeader");
    framing!(CoseKey, vec![0xa1, 0x01, 0x04], "CoseKey");
    framing!(Label, vec![0x18, 0x2a], "Label");
    // protected bstr content must be exactly one item
    for inner in [vec![0xa0u8, 0x00], vec![0xa1, 0x01, 0x26, 0xa0], vec![0xa0, 0xa0], vec![0xa1, 0x01]] {
        n += 1;
        let mut msg = vec![0x84]; msg.extend(bstr(&inner)); msg.extend([0xa0, 0xf6, 0x40]);
        if CoseSign1::from_slice(&msg).is_ok() { if report("C09,C13", format!("COSE_Sign1 {} accepted although its protected bstr is not exactly one header map", hex(&msg))) { return 1; } }
    }
    // tags
    let tags: [u64; 14] = [0, 15, 16, 17, 18, 19, 61, 96, 97, 98, 99, 55799, (1u64 << 32) + 18, u64::MAX];
    macro_rules! tagged { ($t:ty, $tag:expr, $body:expr, $name:expr) => {{
        for &t in &tags {
            n += 1;
            let mut b = head(6, t); b.extend($body);
            let got = <$t>::from_tagged_slice(&b).is_ok();
            if got != (t == $tag) { if report("C14", format!("{}::from_tagged_slice {} tag {}: {}", $name, hex(&b), t, if got { "accepted" } else { "rejected" })) { return 1; } }
            if <$t>::from_slice(&b).is_ok() { if report("C14", format!("{}::from_slice accepts the tagged item {}", $name, hex(&b))) { return 1; } }
            { let mut own = head(6, $tag); own.extend($body); let mut outer = head(6, t); outer.extend(&own);
              if <$t>::from_tagged_slice(&outer).is_ok() { if report("C14", format!("{} accepts {} = tag {} around its own correctly tagged encoding", $name, hex(&outer), t)) { return 1; } } }
            let mut bb = head(6, $tag); bb.extend(&b);
            if <$t>::from_tagged_slice(&bb).is_ok() { if report("C14", format!("{} accepts the doubly tagged item {}", $name, hex(&bb))) { return 1; } }
        }
        if <$t>::from_tagged_slice(&$body).is_ok() { if report("C14", format!("{}::from_tagged_slice accepts an untagged item", $name)) { return 1; } }
        for hd in [vec![0xd8u8, $tag as u8], vec![0xd9, 0, $tag as u8], vec![0xda, 0, 0, 0, $tag as u8], vec![0xdb, 0, 0, 0, 0, 0, 0, 0, $tag as u8]] {
            n += 1;
            let mut b = hd.clone(); b.extend($body);
            if <$t>::from_tagged_slice(&b).is_err() { if report("C14", format!("{}::from_tagged_slice rejects its own tag written with the head {} (tag numbers, not byte patterns, identify the type)", $name, hex(&hd))) { return 1; } }
        }
        // every one- and two-byte prefix in front of the untagged body: accepted exactly when the prefix is a tag head carrying
        // this type's tag number (a look-alike first byte - a simple value, another major type - is not a tag)
        {
            let tg: u64 = $tag;
            let mut prefixes: Vec<Vec<u8>> = vec![];
            for a in 0..=255u8 { prefixes.push(vec![a]); for b2 in 0..=255u8 { prefixes.push(vec![a, b2]); } }
            for pf in &prefixes {
                n += 1;
                let want = (pf.len() == 1 && tg < 24 && pf[0] == 0xc0 | tg as u8) || (pf.len() == 2 && pf[0] == 0xd8 && tg < 256 && pf[1] == tg as u8);
                let mut b = pf.clone(); b.extend($body);
                let got = <$t>::from_tagged_slice(&b).is_ok();
                if got != want { if report("C14", format!("{}::from_tagged_slice {} (prefix {} + untagged body): {}", $name, hex(&b), hex(pf), if got { "accepted" } else { "rejected" })) { return 1; } }
            }
        }
        // a major-type-6 head with the reserved additional information 28..31 is not CBOR, whatever follows
        for ai in 28u8..=31 { for width in [0usize, 1, 2, 4, 8] {
            n += 1;
            let mut b = vec![0xc0 | ai]; let tg: u64 = $tag; b.extend_from_slice(&tg.to_be_bytes()[8 - width..]); b.extend($body);
            if <$t>::from_tagged_slice(&b).is_ok() { if report("C14,C13", format!("{}::from_tagged_slice accepts {} (tag head with reserved additional information {})", $name, hex(&b), ai)) { return 1; } }
        } }
        let v = <$t>::from_slice(&$body).unwrap();
        let mut want = head(6, $tag); want.extend(v.clone().to_vec().unwrap());
        if v.to_tagged_vec().unwrap() != want { if report("C14", format!("{}::to_tagged_vec is not tag {} applied to to_vec", $name, $tag)) { return 1; } }
    }}; }
    tagged!(CoseSign1, 18, sign1.clone(), "CoseSign1");
    tagged!(CoseEncrypt0, 16, enc0.clone(), "CoseEncrypt0");
    tagged!(CoseMac0, 17, vec![0x84, 0x40, 0xa0, 0xf6, 0x41, 0x01], "CoseMac0");
    tagged!(CoseSign, 98, vec![0x84, 0x40, 0xa0, 0xf6, 0x80], "CoseSign");
    tagged!(CoseMac, 97, vec![0x85, 0x40, 0xa0, 0xf6, 0x41, 0x01, 0x80], "CoseMac");
    tagged!(CoseEncrypt, 96, vec![0x84, 0x40, 0xa0, 0xf6, 0x80], "CoseEncrypt");
    // byte-level encode == serialise(to_cbor_value), byte-level decode == from_cbor_value(parse), over boundary labels and small values
    {
        let ser = |v: &Value| { let mut b = vec![]; ciborium::ser::into_writer(v, &mut b).unwrap(); b };
        let mut ints: Vec<i64> = vec![i64::MIN, i64::MAX];
        for base in [0i64, 23, 24, 255, 256, 65535, 65536, 1 << 32] { for d in -1..=1 { ints.push(base + d); ints.push(-(base + d)); ints.push(-1 - (base + d)); } }
        for i in ints {
            n += 1;
            let l = Label::Int(i);
            let want = ser(&l.clone().to_cbor_value().unwrap());
            if l.clone().to_vec().ok() != Some(want.clone()) { if report("C13", format!("Label::Int({}).to_vec() = {:?}, serialising to_cbor_value gives {}", i, l.clone().to_vec().map(|b| hex(&b)), hex(&want))) { return 1; } }
            if want != int(i as i128) { if report("C13,C15", format!("Label::Int({}) serialises to {}, deterministic CBOR is {}", i, hex(&want), hex(&int(i as i128)))) { return 1; } }
            if Label::from_slice(&want).ok() != Some(l.clone()) { if report("C13", format!("Label::from_slice({}) does not give Int({})", hex(&want), i)) { return 1; } }
        }
        for t in ["", "a", "é", &"x".repeat(24), &"y".repeat(256)] {
            n += 1;
            let l = Label::Text(t.to_string());
            if l.clone().to_vec().ok() != Some(tstr(t)) { if report("C13", format!("Label::Text({:?}).to_vec() is not the text string encoding", t)) { return 1; } }
        }
        macro_rules! agree { ($t:ty, $body:expr, $name:expr) => {{
            n += 1;
            let body: Vec<u8> = $body;
            let v: Value = ciborium::de::from_reader(&body[..]).unwrap();
            let a = <$t>::from_slice(&body).ok(); let b2 = <$t>::from_cbor_value(v).ok();
            if a != b2 { if report("C13", format!("{}: from_slice and from_cbor_value(parse) disagree on {}", $name, hex(&body))) { return 1; } }
            if let Some(x) = a { let e1 = x.clone().to_vec().ok(); let e2 = x.to_cbor_value().ok().map(|v| ser(&v));
                if e1 != e2 { if report("C13", format!("{}: to_vec and serialise(to_cbor_value) disagree for the value decoded from {}", $name, hex(&body))) { return 1; } } }
        }}; }
        for depth in [10usize, 40, 100, 200] {
            // header map {9: [[[...[0]...]]]} with `depth` nested arrays: within ciborium's own limit, so both API layers accept it
            let mut h = vec![0xa1u8, 0x09]; for _ in 0..depth { h.push(0x81); } h.push(0x00);
            agree!(Header, h.clone(), "Header with a deeply nested extra parameter");
            if Header::from_slice(&h).is_err() { if report("C13,C01", format!("Header with an extra parameter nested {} deep is rejected by from_slice", depth)) { return 1; } }
        }
        for wire in [vec![0xa0u8], vec![0xbf, 0xff], vec![0xa1, 0x18, 0x01, 0x26], vec![0xa2, 0x04, 0x41, 0x01, 0x01, 0x26], vec![]] {
            n += 1;
            if let Ok(p) = ProtectedHeader::from_cbor_bstr(Value::Bytes(wire.clone())) {
                let e1 = p.clone().to_vec().ok(); let e2 = p.clone().to_cbor_value().ok().map(|v| ser(&v));
                if e1 != e2 { if report("C13", format!("ProtectedHeader decoded from the bstr {}: to_vec gives {:?}, serialise(to_cbor_value) gives {:?}", hex(&wire), e1.map(|b| hex(&b)), e2.map(|b| hex(&b)))) { return 1; } }
            }
        }
        agree!(CoseSign1, sign1.clone(), "CoseSign1"); agree!(CoseEncrypt0, enc0.clone(), "CoseEncrypt0"); agree!(Header, vec![0xa2, 0x01, 0x26, 0x20, 0x01], "Header");
        agree!(ProtectedHeader, vec![0xa1, 0x01, 0x26], "ProtectedHeader"); agree!(CoseKey, vec![0xa2, 0x01, 0x04, 0x20, 0x41, 0x01], "CoseKey");
        agree!(CoseKeySet, vec![0x81, 0xa1, 0x01, 0x04], "CoseKeySet"); agree!(cwt::ClaimsSet, vec![0xa2, 0x01, 0x61, b'i', 0x04, 0x01], "ClaimsSet");
        agree!(CoseSign, vec![0x84, 0x40, 0xa0, 0xf6, 0x81, 0x83, 0x40, 0xa0, 0x41, 0x01], "CoseSign"); agree!(CoseMac0, vec![0x84, 0x40, 0xa0, 0xf6, 0x41, 0x01], "CoseMac0");
        agree!(CoseRecipient, vec![0x83, 0x40, 0xa0, 0xf6], "CoseRecipient"); agree!(CoseKdfContext, vec![0x84, 0x01, 0x83, 0xf6, 0xf6, 0xf6, 0x83, 0xf6, 0xf6, 0xf6, 0x82, 0x18, 0x80, 0x40], "CoseKdfContext");
    }
    // every input of at most two bytes through every byte-level entry point (panics are what matters here)
    {
        let mut inputs: Vec<Vec<u8>> = vec![vec![]];
        for a in 0..=255u8 { inputs.push(vec![a]); for b2 in 0..=255u8 { inputs.push(vec![a, b2]); } }
        for i in &inputs {
            n += 1;
            let _ = CoseSign1::from_slice(i); let _ = CoseSign1::from_tagged_slice(i); let _ = CoseSign::from_tagged_slice(i); let _ = CoseMac::from_tagged_slice(i);
            let _ = CoseMac0::from_tagged_slice(i); let _ = CoseEncrypt::from_tagged_slice(i); let _ = CoseEncrypt0::from_tagged_slice(i);
            let _ = Header::from_slice(i); let _ = CoseKey::from_slice(i); let _ = CoseKeySet::from_slice(i); let _ = cwt::ClaimsSet::from_slice(i); let _ = CoseKdfContext::from_slice(i);
            let _ = ProtectedHeader::from_cbor_bstr(Value::Bytes(i.clone())); let _ = Label::from_slice(i); let _ = CoseRecipient::from_slice(i); let _ = CoseSignature::from_slice(i);
        }
    }
    println!("probe framing: {} cases, no disagreement", n);
    0
}

/// C15: integers at every interpreting position, boundary lattice over CBOR's range
pub fn probe_integers() -> i32 {
    let mut lattice: Vec<i128> = vec![];
    for base in [0i128, 23, 24, 1 << 8, 1 << 16, 1 << 32, 1 << 63, 1 << 64] { for d in -2..=2 { for s in [1i128, -1] {
        let x = s * base + d; if x >= -(1i128 << 64) && x < (1i128 << 64) { lattice.push(x); } } } }
    lattice.sort(); lattice.dedup();
    let mut n = 0u64;
    for &x in &lattice {
        let iv = Value::Integer(Integer::try_from(x).unwrap());
        let in_i64 = x >= i64::MIN as i128 && x <= i64::MAX as i128;
        let oor = |r: Result<(), CoseError>| matches!(r, Err(CoseError::OutOfRangeIntegerValue));
        n += 1;
        // plain label
        match Label::from_cbor_value(iv.clone()) {
            Ok(Label::Int(v)) if in_i64 && v as i128 == x => { if Label::Int(v).to_cbor_value().ok() != Some(iv.clone()) { if report("C15,C18", format!("Label {} does not encode back to the same integer", x)) { return 1; } } }
            Err(CoseError::OutOfRangeIntegerValue) if !in_i64 => {}
            other => { if report("C15,C18", format!("Label::from_cbor_value({}) = {:?}", x, other)) { return 1; } }
        }
        // registry labels: out of range must be OutOfRange (in range: registered/private/unregistered is C17's business)
        if !in_i64 && !oor(Algorithm::from_cbor_value(iv.clone()).map(|_| ())) { if report("C15,C18", format!("Algorithm::from_cbor_value({}) is not OutOfRangeIntegerValue", x)) { return 1; } }
        if !in_i64 && !oor(ContentType::from_cbor_value(iv.clone()).map(|_| ())) { if report("C15,C18", format!("ContentType::from_cbor_value({}) is not OutOfRangeIntegerValue", x)) { return 1; } }
        // timestamp
        match cwt::Timestamp::from_cbor_value(iv.clone()) {
            Ok(cwt::Timestamp::WholeSeconds(v)) if in_i64 && v as i128 == x => {}
            Err(CoseError::OutOfRangeIntegerValue) if !in_i64 => {}
            other => { if report("C15,C18", format!("Timestamp::from_cbor_value({}) = {:?}", x, other)) { return 1; } }
        }
        // nonce (both parties of a KDF context, and standalone)
        let pi = Value::Array(vec![Value::Null, iv.clone(), Value::Null]);
        match PartyInfo::from_cbor_value(pi.clone()) {
            Ok(p) if in_i64 && p.nonce == Some(Nonce::Integer(x as i64)) => { if p.to_cbor_value().ok() != Some(pi.clone()) { if report("C15,C18", format!("PartyInfo nonce {} does not encode back", x)) { return 1; } } }
            Err(CoseError::OutOfRangeIntegerValue) if !in_i64 => {}
            other => { if report("C15,C18", format!("PartyInfo nonce {} decodes to {:?}", x, other)) { return 1; } }
        }
        // key data length (u64)
        let sp = Value::Array(vec![iv.clone(), Value::Bytes(vec![])]);
        let in_u64 = x >= 0;
        match SuppPubInfo::from_cbor_value(sp.clone()) {
            Ok(s) if in_u64 && s.key_data_length as i128 == x => { if s.to_cbor_value().ok() != Some(sp.clone()) { if report("C15,C18", format!("SuppPubInfo length {} does not encode back", x)) { return 1; } } }
            Err(CoseError::OutOfRangeIntegerValue) if !in_u64 => {}
            other => { if report("C15,C18", format!("SuppPubInfo keyDataLength {} decodes to {:?}", x, other.map(|s| s.key_data_length))) { return 1; } }
        }
        // map label positions: header, key, claims; and preserved when not interpreted (extra parameter VALUE)
        let hm = Value::Map(vec![(iv.clone(), Value::Null)]);
        let hr = Header::from_cbor_value(hm.clone());
        if in_i64 != hr.is_ok() && !(1..=7).contains(&x) { if report("C15,C18", format!("header label {}: ok={}", x, hr.is_ok())) { return 1; } }
        if !in_i64 && !oor(hr.map(|_| ())) { if report("C15,C18", format!("header label {} is not OutOfRangeIntegerValue", x)) { return 1; } }
        let hv = Value::Map(vec![(Value::from(1000), iv.clone())]);
        match Header::from_cbor_value(hv.clone()) { Ok(h) if h.rest.len() == 1 && h.rest[0].1 == iv && h.clone().to_cbor_value().ok() == Some(hv.clone()) => {}
            other => { if report("C15,C18", format!("extra parameter value {} not preserved: {:?}", x, other.map(|h| h.rest))) { return 1; } } }
        let km = Value::Map(vec![(Value::from(1), Value::from(4)), (iv.clone(), Value::Null)]);
        let kr = CoseKey::from_cbor_value(km);
        if !in_i64 && !oor(kr.map(|_| ())) { if report("C15,C18", format!("key label {} is not OutOfRangeIntegerValue", x)) { return 1; } }
    }
    // width aliasing: a registered value shifted by a multiple of 2^8 / 2^16 / 2^32 is a different integer; at every typed
    // position it is classified as itself (reference model), never as the value its low bits spell, and an accepted one
    // encodes back to the same integer
    {
        let offs: [i128; 8] = [1 << 8, -(1 << 8), 1 << 16, -(1 << 16), 1 << 32, -(1 << 32), 1 << 63, 1 << 17];
        let mut cases: Vec<(&str, Value, bool)> = vec![];
        let big = |x: i128| Integer::try_from(x).ok().map(Value::Integer);
        for &o in &offs {
            for &r in ALGS.iter().step_by(7).chain([-7i64, 1, -65535].iter()) { if let Some(iv) = big(r as i128 + o) {
                cases.push(("header alg", Value::Map(vec![(Value::from(1), iv.clone())]), true));
                cases.push(("key alg", Value::Map(vec![(Value::from(1), Value::from(4)), (Value::from(3), iv.clone())]), false)); } }
            for &r in CONTENT_FORMATS.iter().step_by(5).chain([0i64, 50, 60].iter()) { if let Some(iv) = big(r as i128 + o) {
                cases.push(("header content type", Value::Map(vec![(Value::from(3), iv.clone())]), true)); } }
            for &r in HDR_PARAMS.iter() { if let Some(iv) = big(r as i128 + o) {
                cases.push(("header crit element", Value::Map(vec![(Value::from(2), Value::Array(vec![iv.clone()]))]), true)); } }
            for r in 0i64..=6 { if let Some(iv) = big(r as i128 + o) {
                cases.push(("key type", Value::Map(vec![(Value::from(1), iv.clone())]), false));
                cases.push(("key operation", Value::Map(vec![(Value::from(1), Value::from(4)), (Value::from(4), Value::Array(vec![iv.clone()]))]), false)); } }
            for &r in CLAIMS.iter() { if let Some(iv) = big(r as i128 + o) {
                cases.push(("claim name", Value::Map(vec![(iv.clone(), Value::Null)]), false)); } }
        }
        for (what, v, is_hdr) in cases {
            n += 1;
            let (got, want, back) = if is_hdr { let r = Header::from_cbor_value(v.clone()); (r.is_ok(), hdr_ref(&v, 0), r.ok().and_then(|h| h.to_cbor_value().ok())) }
                else if what == "claim name" { let r = cwt::ClaimsSet::from_cbor_value(v.clone()); (r.is_ok(), claims_ref(&v), r.ok().and_then(|h| h.to_cbor_value().ok())) }
                else { let r = CoseKey::from_cbor_value(v.clone()); (r.is_ok(), key_ref(&v), r.ok().and_then(|h| h.to_cbor_value().ok())) };
            if got != want { if report("C15,C17", format!("{} {}: crate {} it; the integer is {} for that position (its low bits may spell a registered one)", what, hex(&ser(&v)), if got { "accepts" } else { "rejects" }, if want { "registered / private-use" } else { "not registered" })) { return 1; } }
            if got && back.as_ref() != Some(&v) { if report("C15,C07", format!("{} {}: accepted but encodes back to {:?}", what, hex(&ser(&v)), back.map(|b| hex(&ser(&b))))) { return 1; } }
        }
    }
    println!("probe integers: {} lattice points x positions, no disagreement", n);
    0
}

fn enc_label(l: &Label) -> Vec<u8> { match l { Label::Int(i) => int(*i as i128), Label::Text(t) => tstr(t) } }
/// C16 / C20: label order vs order of encodings; canonicalize
pub fn probe_order() -> i32 {
    let mut ints: Vec<i64> = vec![i64::MIN, i64::MAX];
    for base in [0i64, 23, 24, 255, 256, 65535, 65536, 1 << 32] { for d in -1..=1 { ints.push(base + d); ints.push(-(base + d)); ints.push(-1 - (base + d)); } }
    ints.sort(); ints.dedup();
    let mut labels: Vec<Label> = ints.iter().map(|&i| Label::Int(i)).collect();
    for len in [0usize, 1, 23, 24, 255, 256] { labels.push(Label::Text("a".repeat(len))); labels.push(Label::Text("b".repeat(len))); }
    labels.push(Label::Text("é".into())); labels.push(Label::Text("zz".into()));
    let mut n = 0u64;
    for a in &labels { for b in &labels {
        n += 1;
        let (ea, eb) = (enc_label(a), enc_label(b));
        if a.cmp(b) != ea.cmp(&eb) { if report("C16,C20", format!("Label::cmp({:?}, {:?}) = {:?}, encodings order {:?}", a, b, a.cmp(b), ea.cmp(&eb))) { return 1; } }
        let lf = ea.len().cmp(&eb.len()).then(ea.cmp(&eb));
        if a.cmp_canonical(b) != lf { if report("C16,C20", format!("Label::cmp_canonical({:?}, {:?}) = {:?}, length-first order of encodings {:?}", a, b, a.cmp_canonical(b), lf)) { return 1; } }
        if (a.cmp(b) == std::cmp::Ordering::Equal) != (a == b) { if report("C16,C20", format!("Label::cmp({:?}, {:?}) Equal inconsistent with ==", a, b)) { return 1; } }
    } }
    // RegisteredLabel / RegisteredLabelWithPrivate: same order as the labels they denote (integers before text, by encoding)
    {
        use coset::{RegisteredLabel, RegisteredLabelWithPrivate};
        let mut regs: Vec<(RegisteredLabelWithPrivate<iana::Algorithm>, Label)> = vec![];
        for i in [i64::MIN, i64::MIN + 1, -5_000_000_000, -(1i64 << 32) - 1, -(1i64 << 31) - 1, -(1i64 << 31), -70000, -65537] { regs.push((RegisteredLabelWithPrivate::PrivateUse(i), Label::Int(i))); }
        for a in [iana::Algorithm::ES256, iana::Algorithm::A128GCM, iana::Algorithm::RS1, iana::Algorithm::EdDSA, iana::Algorithm::HMAC_256_256, iana::Algorithm::A256GCM] {
            regs.push((RegisteredLabelWithPrivate::Assigned(a), Label::Int(a as i64))); }
        for t in ["", "a", "b", "z", "aa", "aaa", "é", "zz"] { regs.push((RegisteredLabelWithPrivate::Text(t.into()), Label::Text(t.into()))); }
        for (ra, la) in &regs { for (rb, lb) in &regs {
            n += 1;
            if ra.cmp(rb) != la.cmp(lb) { if report("C16", format!("RegisteredLabelWithPrivate::cmp({:?}, {:?}) = {:?}, the labels they denote compare {:?}", ra, rb, ra.cmp(rb), la.cmp(lb))) { return 1; } }
            if (ra.cmp(rb) == std::cmp::Ordering::Equal) != (ra == rb) { if report("C16", format!("RegisteredLabelWithPrivate::cmp({:?}, {:?}) Equal inconsistent with ==", ra, rb)) { return 1; } }
        } }
        let mut regs2: Vec<(RegisteredLabel<iana::HeaderParameter>, Label)> = vec![];
        for h in [iana::HeaderParameter::Alg, iana::HeaderParameter::Crit, iana::HeaderParameter::X5Chain, iana::HeaderParameter::CounterSignature] { regs2.push((RegisteredLabel::Assigned(h), Label::Int(h as i64))); }
        for t in ["", "a", "z", "b", "aa", "aaa", "é", "zz"] { regs2.push((RegisteredLabel::Text(t.into()), Label::Text(t.into()))); }
        for (ra, la) in &regs2 { for (rb, lb) in &regs2 {
            n += 1;
            if ra.cmp(rb) != la.cmp(lb) { if report("C16", format!("RegisteredLabel::cmp({:?}, {:?}) = {:?}, the labels they denote compare {:?}", ra, rb, ra.cmp(rb), la.cmp(lb))) { return 1; } }
        } }
    }
    // canonicalize: every rotation of a palette of extra labels (no label 0: known finding), both orderings
    let extras: Vec<Label> = vec![Label::Int(-1), Label::Int(24), Label::Int(-24), Label::Int(-25), Label::Int(6), Label::Int(255), Label::Int(-256), Label::Int(256), Label::Int(-257),
                                  Label::Text("".into()), Label::Text("k".into()), Label::Int(65536), Label::Int(-65536), Label::Int(-65537),
                                  Label::Text("zeta".into()), Label::Text("beta".into()), Label::Text("y".into()), Label::Text("x".into()), Label::Text("t".repeat(22)), Label::Text("u".repeat(23)), Label::Text("v".repeat(24)), Label::Text("w".repeat(253)), Label::Text("x".repeat(254)), Label::Text("y".repeat(255)), Label::Text("z".repeat(256))];
    for rot in 0..extras.len() { for typed in 0..4 {
        let mut k = CoseKeyBuilder::new_symmetric_key(vec![1]).build();
        k.params.clear();
        if typed & 1 != 0 { k.key_id = vec![1]; }
        if typed & 2 != 0 { k.base_iv = vec![2]; k.alg = Some(Algorithm::Assigned(iana::Algorithm::A128GCM)); }
        for i in 0..extras.len() { k.params.push((extras[(i + rot) % extras.len()].clone(), Value::from(i as i64))); }
        let before = k.clone();
        for (ord, name) in [(CborOrdering::Lexicographic, "lexicographic"), (CborOrdering::LengthFirstLexicographic, "length-first")] {
            n += 1;
            let mut c = before.clone();
            c.canonicalize(ord);
            let mut p1 = before.params.clone(); let mut p2 = c.params.clone();
            p1.sort_by(|a, b| enc_label(&a.0).cmp(&enc_label(&b.0))); p2.sort_by(|a, b| enc_label(&a.0).cmp(&enc_label(&b.0)));
            if p1 != p2 || (CoseKey { params: vec![], ..c.clone() }) != (CoseKey { params: vec![], ..before.clone() }) { if report("C16,C20", format!("canonicalize({}) changed the key content (rotation {})", name, rot)) { return 1; } }
            let bytes = c.clone().to_vec().unwrap();
            let keys = crate::map_key_encodings(&bytes).unwrap();
            let asc = keys.windows(2).all(|w| if name == "lexicographic" { w[0] < w[1] } else { (w[0].len(), &w[0]) < (w[1].len(), &w[1]) });
            if !asc { if report("C16,C20", format!("canonicalize({}) of extras rotation {} typed {}: encoded map keys not ascending: {}", name, rot, typed, hex(&bytes))) { return 1; } }
            let mut c2 = c.clone(); c2.canonicalize(if name == "lexicographic" { CborOrdering::Lexicographic } else { CborOrdering::LengthFirstLexicographic });
            if c2 != c { if report("C16,C20", format!("canonicalize({}) is not idempotent (rotation {})", name, rot)) { return 1; } }
            if CoseKey::from_slice(&bytes).ok().and_then(|k| k.to_vec().ok()) != Some(bytes.clone()) { if report("C16,C20", format!("canonicalised key does not re-encode to the same bytes")) { return 1; } }
        }
    } }
    // large keys: many extra parameters whose labels share encoded lengths, in a scrambled order (sorting algorithms switch
    // strategy with the slice length)
    for &cnt in &[21usize, 33, 64, 100, 257, 1000] {
        let mut r = Rng::from_env();
        let mut labels: Vec<Label> = vec![];
        for i in 0..cnt { labels.push(match i % 4 { 0 => Label::Int(30 + i as i64), 1 => Label::Int(-30 - i as i64), 2 => Label::Int(5000 + i as i64), _ => Label::Text(format!("{:03}", i)) }); }
        for i in (1..labels.len()).rev() { let j = r.below(i as u64 + 1) as usize; labels.swap(i, j); }
        let mut k = CoseKeyBuilder::new_symmetric_key(vec![1]).build();
        k.params.clear();
        for (i, l) in labels.iter().enumerate() { k.params.push((l.clone(), Value::from(i as i64))); }
        for (ord, name) in [(CborOrdering::Lexicographic, "lexicographic"), (CborOrdering::LengthFirstLexicographic, "length-first")] {
            n += 1;
            let mut c = k.clone();
            c.canonicalize(ord);
            let bytes = c.clone().to_vec().unwrap();
            let keys = crate::map_key_encodings(&bytes).unwrap();
            let asc = keys.windows(2).all(|w| if name == "lexicographic" { w[0] < w[1] } else { (w[0].len(), &w[0]) < (w[1].len(), &w[1]) });
            if !asc { if report("C16,C20", format!("canonicalize({}) of a key with {} extra parameters: encoded map keys not ascending", name, cnt)) { return 1; } }
            let mut p1 = k.params.clone(); let mut p2 = c.params.clone();
            p1.sort_by(|a, b| enc_label(&a.0).cmp(&enc_label(&b.0))); p2.sort_by(|a, b| enc_label(&a.0).cmp(&enc_label(&b.0)));
            if p1 != p2 { if report("C16,C20", format!("canonicalize({}) of a key with {} extra parameters changed the set of parameters", name, cnt)) { return 1; } }
        }
    }
    println!("probe order: {} comparisons, no disagreement", n);
    0
}

// ---------------------------------------------------------------- C09: message structures against their CDDL (generated)
fn bstr_or_nil(v: &Value) -> bool { matches!(v, Value::Bytes(_) | Value::Null) }
fn recipient_ref(v: &Value) -> bool {
    match v { Value::Array(a) if a.len() == 3 || a.len() == 4 => prot_ref(&a[0], 0) && hdr_ref(&a[1], 0) && bstr_or_nil(&a[2])
        && (a.len() == 3 || matches!(&a[3], Value::Array(rs) if rs.iter().all(recipient_ref))), _ => false }
}
/// kind: 0 Sign1, 1 Sign, 2 Signature, 3 Mac, 4 Mac0, 5 Encrypt, 6 Encrypt0, 7 recipient
pub fn msg_ref(kind: usize, v: &Value) -> bool {
    let a = match v { Value::Array(a) => a, _ => return false };
    let hdrs = |a: &Vec<Value>| prot_ref(&a[0], 0) && hdr_ref(&a[1], 0);
    match kind {
        0 => a.len() == 4 && hdrs(a) && bstr_or_nil(&a[2]) && matches!(a[3], Value::Bytes(_)),
        1 => a.len() == 4 && hdrs(a) && bstr_or_nil(&a[2]) && matches!(&a[3], Value::Array(s) if s.iter().all(|x| sig_ref(x, 0))),
        2 => sig_ref(v, 0),
        3 => a.len() == 5 && hdrs(a) && bstr_or_nil(&a[2]) && matches!(a[3], Value::Bytes(_)) && matches!(&a[4], Value::Array(rs) if rs.iter().all(recipient_ref)),
        4 => a.len() == 4 && hdrs(a) && bstr_or_nil(&a[2]) && matches!(a[3], Value::Bytes(_)),
        5 => a.len() == 4 && hdrs(a) && bstr_or_nil(&a[2]) && matches!(&a[3], Value::Array(rs) if rs.iter().all(recipient_ref)),
        6 => a.len() == 3 && hdrs(a) && bstr_or_nil(&a[2]),
        _ => recipient_ref(v),
    }
}
fn gen_slot(r: &mut Rng, want: u8) -> Value {
    // want: 0 protected, 1 header, 2 bstr-or-nil, 3 bstr, 4 signatures, 5 recipients
    if r.chance(10) { return gen_any(r); }
    match want {
        0 => gen_prot(r, 0), 1 => if r.chance(80) { gen_header(r, 1) } else { Value::Map(vec![]) },
        2 => if r.chance(40) { Value::Null } else { Value::Bytes(gen_bytes(r)) }, 3 => Value::Bytes(gen_bytes(r)),
        4 => Value::Array((0..r.below(3)).map(|_| gen_sig(r, 0)).collect()),
        _ => Value::Array((0..r.below(3)).map(|_| gen_recipient(r, 0)).collect()),
    }
}
fn gen_recipient(r: &mut Rng, depth: usize) -> Value {
    let mut a = vec![gen_slot(r, 0), gen_slot(r, 1), gen_slot(r, 2)];
    if depth < 2 && r.chance(35) { a.push(Value::Array((0..r.below(3)).map(|_| gen_recipient(r, depth + 1)).collect())); }
    if r.chance(6) { a.push(Value::Null); }
    Value::Array(a)
}
pub fn probe_messages() -> i32 {
    let mut r = Rng::from_env();
    let shapes: [&[u8]; 8] = [&[0, 1, 2, 3], &[0, 1, 2, 4], &[0, 1, 3], &[0, 1, 2, 3, 5], &[0, 1, 2, 3], &[0, 1, 2, 5], &[0, 1, 2], &[0, 1, 2]];
    let names = ["COSE_Sign1", "COSE_Sign", "COSE_Signature", "COSE_Mac", "COSE_Mac0", "COSE_Encrypt", "COSE_Encrypt0", "COSE_recipient"];
    let mut n = 0u64; let mut accepted = 0u64;
    std::panic::set_hook(Box::new(|_| {}));      // panics of the follow-up operations are caught and reported below
    // recipients inside recipients: the CDDL is recursive, so every nesting depth of well-formed recipients is well-formed
    // (standalone, inside COSE_Encrypt, inside COSE_Mac), and the innermost one must come back where it was put
    for depth in 0..=12usize {
        n += 1;
        let mut rcp = Value::Array(vec![Value::Bytes(vec![]), Value::Map(vec![(Value::from(4), Value::Bytes(vec![depth as u8 + 1]))]), Value::Null]);
        for _ in 0..depth { rcp = Value::Array(vec![Value::Bytes(vec![]), Value::Map(vec![]), Value::Bytes(vec![7]), Value::Array(vec![rcp])]); }
        let innermost = |mut x: &CoseRecipient| -> Vec<u8> { while let Some(c) = x.recipients.first() { x = c; } x.unprotected.key_id.clone() };
        match CoseRecipient::from_cbor_value(rcp.clone()) {
            Ok(x) => if innermost(&x) != vec![depth as u8 + 1] { if report("C09", format!("COSE_recipient nested {} deep: innermost recipient is not the one on the wire", depth)) { return 1; } },
            Err(e) => { if report("C09", format!("COSE_recipient {} ({} recipients deep): crate rejects it ({:?}), its CDDL says accept", hex(&ser(&rcp)), depth, e)) { return 1; } }
        }
        let enc = Value::Array(vec![Value::Bytes(vec![]), Value::Map(vec![]), Value::Null, Value::Array(vec![rcp.clone()])]);
        if let Err(e) = CoseEncrypt::from_cbor_value(enc.clone()) { if report("C09", format!("COSE_Encrypt {} (recipients {} deep): crate rejects it ({:?}), its CDDL says accept", hex(&ser(&enc)), depth, e)) { return 1; } }
        if CoseEncrypt::from_slice(&ser(&enc)).is_err() { if report("C09", format!("COSE_Encrypt {} (recipients {} deep): from_slice rejects it, its CDDL says accept", hex(&ser(&enc)), depth)) { return 1; } }
        let mac = Value::Array(vec![Value::Bytes(vec![]), Value::Map(vec![]), Value::Null, Value::Bytes(vec![1]), Value::Array(vec![rcp.clone()])]);
        if let Err(e) = CoseMac::from_cbor_value(mac.clone()) { if report("C09", format!("COSE_Mac {} (recipients {} deep): crate rejects it ({:?}), its CDDL says accept", hex(&ser(&mac)), depth, e)) { return 1; } }
    }
    // arity: every prefix of a well-formed structure and every extension by one or two further elements (of the kinds an
    // optional trailing element could have) against the CDDL
    {
        let rcp0 = Value::Array(vec![Value::Bytes(vec![]), Value::Map(vec![]), Value::Null]);
        let sig0 = Value::Array(vec![Value::Bytes(vec![]), Value::Map(vec![]), Value::Bytes(vec![1])]);
        let full: [Vec<Value>; 8] = [
            vec![Value::Bytes(vec![]), Value::Map(vec![]), Value::Null, Value::Bytes(vec![1])],
            vec![Value::Bytes(vec![]), Value::Map(vec![]), Value::Null, Value::Array(vec![sig0.clone()])],
            vec![Value::Bytes(vec![]), Value::Map(vec![]), Value::Bytes(vec![1])],
            vec![Value::Bytes(vec![]), Value::Map(vec![]), Value::Null, Value::Bytes(vec![1]), Value::Array(vec![rcp0.clone()])],
            vec![Value::Bytes(vec![]), Value::Map(vec![]), Value::Null, Value::Bytes(vec![1])],
            vec![Value::Bytes(vec![]), Value::Map(vec![]), Value::Null, Value::Array(vec![rcp0.clone()])],
            vec![Value::Bytes(vec![]), Value::Map(vec![]), Value::Null],
            vec![Value::Bytes(vec![]), Value::Map(vec![]), Value::Null, Value::Array(vec![rcp0.clone()])],
        ];
        let extras = [Value::Null, Value::Array(vec![]), Value::Array(vec![rcp0.clone()]), Value::Bytes(vec![]), Value::Map(vec![])];
        for kind in 0..8usize {
            let mut arrays: Vec<Vec<Value>> = (0..=full[kind].len()).map(|k| full[kind][..k].to_vec()).collect();
            for e1 in &extras { let mut a = full[kind].clone(); a.push(e1.clone()); arrays.push(a.clone()); for e2 in &extras { let mut b2 = a.clone(); b2.push(e2.clone()); arrays.push(b2); } }
            if kind == 7 { for e1 in &extras { let mut a = full[kind][..3].to_vec(); a.push(e1.clone()); arrays.push(a); } }
            for a in arrays {
                n += 1;
                let v = Value::Array(a);
                let want = msg_ref(kind, &v);
                let got = match kind { 0 => CoseSign1::from_cbor_value(v.clone()).is_ok(), 1 => CoseSign::from_cbor_value(v.clone()).is_ok(), 2 => CoseSignature::from_cbor_value(v.clone()).is_ok(),
                    3 => CoseMac::from_cbor_value(v.clone()).is_ok(), 4 => CoseMac0::from_cbor_value(v.clone()).is_ok(), 5 => CoseEncrypt::from_cbor_value(v.clone()).is_ok(),
                    6 => CoseEncrypt0::from_cbor_value(v.clone()).is_ok(), _ => CoseRecipient::from_cbor_value(v.clone()).is_ok() };
                if got != want { if report("C09", format!("{} {} (array of {} elements): crate {} it, its CDDL says {}", names[kind], hex(&ser(&v)), match &v { Value::Array(a) => a.len(), _ => 0 }, if got { "accepts" } else { "rejects" }, if want { "accept" } else { "reject" })) { return 1; } }
            }
        }
    }
    // each header bucket is a header map of its own: IV in one and Partial IV in the other (either way round), or the same
    // parameter in both, is well-formed for every message kind
    {
        let iv = Value::Map(vec![(Value::from(5), Value::Bytes(vec![1]))]); let piv = Value::Map(vec![(Value::from(6), Value::Bytes(vec![2]))]);
        for (pm, um) in [(iv.clone(), piv.clone()), (piv.clone(), iv.clone()), (iv.clone(), iv.clone()), (piv.clone(), piv.clone())] {
            let pb = Value::Bytes(ser(&pm));
            let rcp = Value::Array(vec![pb.clone(), um.clone(), Value::Null]);
            let sg = Value::Array(vec![pb.clone(), um.clone(), Value::Bytes(vec![1])]);
            let cases: Vec<(usize, Value)> = vec![
                (0, Value::Array(vec![pb.clone(), um.clone(), Value::Null, Value::Bytes(vec![1])])), (1, Value::Array(vec![pb.clone(), um.clone(), Value::Null, Value::Array(vec![sg.clone()])])), (2, sg.clone()),
                (3, Value::Array(vec![pb.clone(), um.clone(), Value::Null, Value::Bytes(vec![1]), Value::Array(vec![rcp.clone()])])), (4, Value::Array(vec![pb.clone(), um.clone(), Value::Null, Value::Bytes(vec![1])])),
                (5, Value::Array(vec![pb.clone(), um.clone(), Value::Null, Value::Array(vec![rcp.clone()])])), (6, Value::Array(vec![pb.clone(), um.clone(), Value::Null])), (7, rcp.clone())];
            for (kind, v) in cases {
                n += 1;
                let got = match kind { 0 => CoseSign1::from_cbor_value(v.clone()).is_ok(), 1 => CoseSign::from_cbor_value(v.clone()).is_ok(), 2 => CoseSignature::from_cbor_value(v.clone()).is_ok(),
                    3 => CoseMac::from_cbor_value(v.clone()).is_ok(), 4 => CoseMac0::from_cbor_value(v.clone()).is_ok(), 5 => CoseEncrypt::from_cbor_value(v.clone()).is_ok(),
                    6 => CoseEncrypt0::from_cbor_value(v.clone()).is_ok(), _ => CoseRecipient::from_cbor_value(v.clone()).is_ok() };
                if !got && msg_ref(kind, &v) { if report("C09,C08", format!("{} {}: crate rejects it; each header bucket is a well-formed header map on its own (IV / Partial IV exclusion is per map)", names[kind], hex(&ser(&v)))) { return 1; } }
            }
        }
    }
    // order: recipients and signatures come back in wire order (three siblings with distinct key ids, at two levels)
    {
        let rk = |k: u8, kids: Vec<Value>| { let mut a = vec![Value::Bytes(vec![]), Value::Map(vec![(Value::from(4), Value::Bytes(vec![k]))]), Value::Null]; if !kids.is_empty() { a.push(Value::Array(kids)); } Value::Array(a) };
        let sk = |k: u8| Value::Array(vec![Value::Bytes(vec![]), Value::Map(vec![(Value::from(4), Value::Bytes(vec![k]))]), Value::Bytes(vec![k])]);
        let kids = |x: &CoseRecipient| -> Vec<u8> { x.recipients.iter().map(|c| c.unprotected.key_id.first().copied().unwrap_or(0)).collect() };
        n += 4;
        let top = rk(1, vec![rk(2, vec![rk(5, vec![]), rk(6, vec![]), rk(7, vec![])]), rk(3, vec![]), rk(4, vec![])]);
        match CoseRecipient::from_cbor_value(top.clone()) {
            Ok(x) => { if kids(&x) != vec![2, 3, 4] || kids(&x.recipients[0]) != vec![5, 6, 7] { if report("C09", format!("COSE_recipient {}: nested recipients come back as {:?} / {:?}, wire order is [2,3,4] / [5,6,7]", hex(&ser(&top)), kids(&x), x.recipients.first().map(kids))) { return 1; } }
                       if x.clone().to_cbor_value().ok() != Some(top.clone()) { if report("C09,C07,C11", format!("COSE_recipient {}: does not encode back to the same structure (nested recipients in wire order)", hex(&ser(&top)))) { return 1; } } }
            Err(e) => { if report("C09", format!("COSE_recipient {} rejected: {:?}", hex(&ser(&top)), e)) { return 1; } }
        }
        let enc = Value::Array(vec![Value::Bytes(vec![]), Value::Map(vec![]), Value::Null, Value::Array(vec![rk(2, vec![]), rk(3, vec![rk(8, vec![]), rk(9, vec![])]), rk(4, vec![])])]);
        match CoseEncrypt::from_cbor_value(enc.clone()) {
            Ok(x) => { if x.clone().to_cbor_value().ok() != Some(enc.clone()) { if report("C11,C07", format!("CoseEncrypt {}: does not encode back to the same structure (nested list in wire order)", hex(&ser(&enc)))) { return 1; } } let got: Vec<u8> = x.recipients.iter().map(|c| c.unprotected.key_id[0]).collect(); if got != vec![2, 3, 4] || kids(&x.recipients[1]) != vec![8, 9] { if report("C09", format!("COSE_Encrypt {}: recipients come back as {:?}, wire order is [2,3,4]", hex(&ser(&enc)), got)) { return 1; } } }
            Err(e) => { if report("C09", format!("COSE_Encrypt {} rejected: {:?}", hex(&ser(&enc)), e)) { return 1; } }
        }
        let mac = Value::Array(vec![Value::Bytes(vec![]), Value::Map(vec![]), Value::Null, Value::Bytes(vec![1]), Value::Array(vec![rk(2, vec![]), rk(3, vec![]), rk(4, vec![])])]);
        match CoseMac::from_cbor_value(mac.clone()) {
            Ok(x) => { if x.clone().to_cbor_value().ok() != Some(mac.clone()) { if report("C11,C07", format!("CoseMac {}: does not encode back to the same structure (nested list in wire order)", hex(&ser(&mac)))) { return 1; } } let got: Vec<u8> = x.recipients.iter().map(|c| c.unprotected.key_id[0]).collect(); if got != vec![2, 3, 4] { if report("C09", format!("COSE_Mac {}: recipients come back as {:?}, wire order is [2,3,4]", hex(&ser(&mac)), got)) { return 1; } } }
            Err(e) => { if report("C09", format!("COSE_Mac {} rejected: {:?}", hex(&ser(&mac)), e)) { return 1; } }
        }
        let sgn = Value::Array(vec![Value::Bytes(vec![]), Value::Map(vec![]), Value::Null, Value::Array(vec![sk(2), sk(3), sk(4)])]);
        match CoseSign::from_cbor_value(sgn.clone()) {
            Ok(x) => { if x.clone().to_cbor_value().ok() != Some(sgn.clone()) { if report("C11,C07", format!("CoseSign {}: does not encode back to the same structure (nested list in wire order)", hex(&ser(&sgn)))) { return 1; } } let got: Vec<u8> = x.signatures.iter().map(|c| c.signature[0]).collect(); if got != vec![2, 3, 4] { if report("C09", format!("COSE_Sign {}: signatures come back as {:?}, wire order is [2,3,4]", hex(&ser(&sgn)), got)) { return 1; } } }
            Err(e) => { if report("C09", format!("COSE_Sign {} rejected: {:?}", hex(&ser(&sgn)), e)) { return 1; } }
        }
    }
    for _ in 0..scale(4000) {
        let kind = r.below(8) as usize;
        let mut a: Vec<Value> = if kind == 7 { match gen_recipient(&mut r, 0) { Value::Array(a) => a, _ => vec![] } } else { shapes[kind].iter().map(|w| gen_slot(&mut r, *w)).collect() };
        if r.chance(7) { a.pop(); } else if r.chance(7) { a.push(gen_any(&mut r)); }
        let v = if r.chance(3) { gen_any(&mut r) } else { Value::Array(a) };
        let want = msg_ref(kind, &v);
        n += 1; if want { accepted += 1; }
        macro_rules! one { ($t:ty, $payload:ident, $follow:expr) => {{
            let got = <$t>::from_cbor_value(v.clone());
            if got.is_ok() != want { if report("C09", format!("{} {}: crate {} it, its CDDL says {}", names[kind], hex(&ser(&v)), if got.is_ok() { "accepts" } else { "rejects" }, if want { "accept" } else { "reject" })) { return 1; } }
            if let (Ok(x), Value::Array(a)) = (got, &v) {
                // slots map to fields
                if x.protected.original_data.as_deref() != match &a[0] { Value::Bytes(b) => Some(&b[..]), _ => None } { if report("C02,C09", format!("{} {}: protected bytes not retained", names[kind], hex(&ser(&v)))) { return 1; } }
                if let Some(f) = cmp_header_fields(&a[1], &x.unprotected) { if report("C09,C08", format!("{} {}: unprotected header field {} differs from the wire", names[kind], hex(&ser(&v)), f)) { return 1; } }
                let slot: Option<Vec<u8>> = match &a[2] { Value::Bytes(b) => Some(b.clone()), _ => None };
                if x.$payload != slot { if report("C09", format!("{} {}: payload / ciphertext field {:?} differs from slot", names[kind], hex(&ser(&v)), x.$payload)) { return 1; } }
                // C01: everything a caller does next with an accepted value (panics surface as a crash of this probe)
                let y = x.clone();
                let fu = std::panic::catch_unwind(std::panic::AssertUnwindSafe(|| { let _ = y == x; let _ = format!("{:?}", y); let _ = y.clone().to_vec(); $follow(&y); }));
                if fu.is_err() { if report("C01,C06", format!("{} {}: a follow-up operation (clone / compare / encode / to-be-signed / verify / decrypt helper) on the accepted value panicked", names[kind], hex(&ser(&v)))) { return 1; } }
                // C07: the accepted value re-encodes and decodes to the same value
                let back = x.clone().to_cbor_value().ok().and_then(|w| <$t>::from_cbor_value(w).ok());
                if back.map(|b| format!("{:?}", b)) != Some(format!("{:?}", x)) { if report("C07,C11", format!("{} {}: does not survive encode/decode", names[kind], hex(&ser(&v)))) { return 1; } }
            }
        }}; }
        match kind {
            0 => one!(CoseSign1, payload, |m: &CoseSign1| { let _ = m.tbs_data(b"aad"); let _ = m.verify_signature(b"aad", |_s, _d| -> Result<(), ()> { Ok(()) });
                                                              if m.payload.is_none() { let _ = m.tbs_detached_data(b"p", b"aad"); let _ = m.verify_detached_signature(b"p", b"aad", |_s, _d| -> Result<(), ()> { Ok(()) }); } }),
            1 => one!(CoseSign, payload, |m: &CoseSign| { for (i, sg) in m.signatures.iter().enumerate() { let _ = m.tbs_data(b"aad", sg); let _ = m.verify_signature(i, b"aad", |_s, _d| -> Result<(), ()> { Ok(()) });
                                                              if m.payload.is_none() { let _ = m.tbs_detached_data(b"p", b"aad", sg); let _ = m.verify_detached_signature(i, b"p", b"aad", |_s, _d| -> Result<(), ()> { Ok(()) }); } } }),
            3 => one!(CoseMac, payload, |m: &CoseMac| { if m.payload.is_some() { let _ = m.verify_tag(b"aad", |_t, _d| -> Result<(), ()> { Ok(()) }); } }),
            4 => one!(CoseMac0, payload, |m: &CoseMac0| { if m.payload.is_some() { let _ = m.verify_tag(b"aad", |_t, _d| -> Result<(), ()> { Ok(()) }); } }),
            5 => one!(CoseEncrypt, ciphertext, |m: &CoseEncrypt| { if m.ciphertext.is_some() { let _ = m.decrypt(b"aad", |_c, _d| -> Result<Vec<u8>, ()> { Ok(vec![]) }); }
                                                                    for rc in &m.recipients { if rc.ciphertext.is_some() { let _ = rc.decrypt(EncryptionContext::EncRecipient, b"aad", |_c, _d| -> Result<Vec<u8>, ()> { Ok(vec![]) }); } } }),
            6 => one!(CoseEncrypt0, ciphertext, |m: &CoseEncrypt0| { if m.ciphertext.is_some() { let _ = m.decrypt(b"aad", |_c, _d| -> Result<Vec<u8>, ()> { Ok(vec![]) }); } }),
            7 => one!(CoseRecipient, ciphertext, |m: &CoseRecipient| { if m.ciphertext.is_some() { let _ = m.decrypt(EncryptionContext::MacRecipient, b"aad", |_c, _d| -> Result<Vec<u8>, ()> { Ok(vec![]) }); } }),
            _ => { let got = CoseSignature::from_cbor_value(v.clone());
                   if got.is_ok() != want { if report("C09", format!("COSE_Signature {}: crate {} it, its CDDL says {}", hex(&ser(&v)), if got.is_ok() { "accepts" } else { "rejects" }, if want { "accept" } else { "reject" })) { return 1; } } }
        }
    }
    println!("probe messages: {} generated structures ({} well-formed), no disagreement", n, accepted);
    0
}

// ---------------------------------------------------------------- C10: COSE_Key / COSE_KeySet
fn alg_ok(val: &Value) -> bool { match val { Value::Integer(i) => i64::try_from(i128_of(i)).map(|x| ALGS.contains(&x) || x < -65536).unwrap_or(false), Value::Text(_) => true, _ => false } }
fn reg_or_text(val: &Value, table: &[i64]) -> bool { match val { Value::Integer(i) => i64::try_from(i128_of(i)).map(|x| table.contains(&x)).unwrap_or(false), Value::Text(_) => true, _ => false } }
pub fn key_ref(v: &Value) -> bool {
    let m = match v { Value::Map(m) => m, _ => return false };
    let mut seen: Vec<Result<i64, String>> = vec![];
    let mut kty = false;
    for (k, val) in m {
        let l = match label_ref(k) { Some(l) => l, None => return false };
        if seen.contains(&l) { return false; }
        seen.push(l.clone());
        let ok = match l {
            Ok(1) => { kty = reg_or_text(val, &[1, 2, 3, 4, 5, 6]); reg_or_text(val, &[0, 1, 2, 3, 4, 5, 6]) }
            Ok(2) | Ok(5) => nonempty_bstr(val),
            Ok(3) => alg_ok(val),
            Ok(4) => match val { Value::Array(a) if !a.is_empty() => a.iter().all(|e| reg_or_text(e, &[1, 2, 3, 4, 5, 6, 7, 8, 9, 10])) && (0..a.len()).all(|i| (0..i).all(|j| a[i] != a[j])), _ => false },
            _ => true,
        };
        if !ok { return false; }
    }
    kty
}
pub fn probe_keys() -> i32 {
    let labels: Vec<Value> = vec![Value::from(0), Value::from(1), Value::from(2), Value::from(3), Value::from(4), Value::from(5), Value::from(6), Value::from(-1), Value::from(-2),
        Value::Text("t".into()), Value::from(i64::MIN), Value::Integer(Integer::try_from(-(1i128 << 64)).unwrap()), Value::Null];
    let values: Vec<Value> = vec![Value::from(0), Value::from(1), Value::from(4), Value::from(7), Value::from(-7), Value::from(-70000), Value::Text("x".into()), Value::Bytes(vec![]), Value::Bytes(vec![1]),
        Value::Array(vec![]), Value::Array(vec![Value::from(1), Value::from(2)]), Value::Array(vec![Value::from(1), Value::from(1)]), Value::Array(vec![Value::from(11)]),
        Value::Array(vec![Value::Text("op".into()), Value::from(3)]), Value::Array(vec![Value::Text("op".into()), Value::Text("op".into())]), Value::Null, Value::Map(vec![]),
        // text operations that spell a registered name are text all the same (no repeat with the integer of that name)
        Value::Array(vec![Value::Text("sign".into()), Value::from(2)]), Value::Array(vec![Value::from(2), Value::Text("verify".into())]), Value::Array(vec![Value::Text("wrap key".into()), Value::Text("MAC create".into()), Value::from(1)]),
        Value::Array((1..=10).map(Value::from).chain([Value::Text("a".into()), Value::Text("b".into())]).collect())];
    let mut maps: Vec<Vec<(Value, Value)>> = vec![vec![]];
    for l in &labels { for v in &values { maps.push(vec![(l.clone(), v.clone())]); maps.push(vec![(Value::from(1), Value::from(4)), (l.clone(), v.clone())]); maps.push(vec![(l.clone(), v.clone()), (Value::from(1), Value::Text("kt".into()))]); } }
    for l1 in &labels { for l2 in &labels { maps.push(vec![(Value::from(1), Value::from(2)), (l1.clone(), Value::Bytes(vec![7])), (l2.clone(), Value::Bytes(vec![8]))]); } }
    { let mut r = Rng::from_env(); for _ in 0..scale(6000) { if let Value::Map(m) = gen_key(&mut r) { maps.push(m); } }
      for _ in 0..scale(300) { if let Value::Map(m) = gen_long_dup(&mut r, Some((Value::from(1), Value::from(4))), &|i| Value::from(-1 - i)) { maps.push(m); } } }
    let mut n = 0u64;
    for m in &maps {
        n += 1;
        let v = Value::Map(m.clone());
        let want = key_ref(&v);
        let got = CoseKey::from_cbor_value(v.clone());
        let mut b = vec![]; ciborium::ser::into_writer(&v, &mut b).unwrap();
        let dupk = (0..m.len()).any(|a| (0..a).any(|b2| m[a].0 == m[b2].0));
        if got.is_ok() != want { if report(if dupk { "C10,C12" } else { "C10,C17" }, format!("COSE_Key {}: crate {} it, RFC 8152 7 says {}", hex(&b), if got.is_ok() { "accepts" } else { "rejects" }, if want { "accept" } else { "reject" })) { return 1; } }
        if let Ok(k) = got {
            let get = |x: i64| m.iter().find(|(kk, _)| matches!(label_ref(kk), Some(Ok(y)) if y == x)).map(|(_, v)| v.clone());
            let bb = |x: i64| match get(x) { Some(Value::Bytes(b)) => b, _ => vec![] };
            if k.key_id != bb(2) || k.base_iv != bb(5) { if report("C10", format!("COSE_Key {}: kid / base IV differ from the wire", hex(&b))) { return 1; } }
            if k.kty.clone().to_cbor_value().ok() != get(1) { if report("C10", format!("COSE_Key {}: kty differs from the wire", hex(&b))) { return 1; } }
            if k.alg.clone().map(|a| a.to_cbor_value().unwrap()) != get(3) { if report("C10", format!("COSE_Key {}: alg differs from the wire", hex(&b))) { return 1; } }
            let mut ops: Vec<Value> = k.key_ops.iter().map(|o| o.clone().to_cbor_value().unwrap()).collect();
            let mut wops = match get(4) { Some(Value::Array(a)) => a, _ => vec![] };
            let key = |v: &Value| { let mut e = vec![]; ciborium::ser::into_writer(v, &mut e).unwrap(); e };
            ops.sort_by_key(key); wops.sort_by_key(key);
            if ops != wops { if report("C10,C17", format!("COSE_Key {}: key_ops differ from the wire", hex(&b))) { return 1; } }
            let rest: Vec<(Value, Value)> = m.iter().filter(|(kk, _)| !matches!(label_ref(kk), Some(Ok(x)) if (1..=5).contains(&x))).cloned().collect();
            let gotp: Vec<(Value, Value)> = k.params.iter().map(|(l, v)| (l.clone().to_cbor_value().unwrap(), v.clone())).collect();
            if ser(&Value::Map(rest.clone())) != ser(&Value::Map(gotp.clone())) { if report("C10", format!("COSE_Key {}: extra parameters differ from the wire (content or order)", hex(&b))) { return 1; } }
            // decode(encode(k)) == k, and the set form
            match k.clone().to_cbor_value().and_then(CoseKey::from_cbor_value) { Ok(k2) if format!("{:?}", k2) == format!("{:?}", k) => {}, _ => { if report("C10", format!("COSE_Key {}: does not survive encode/decode", hex(&b))) { return 1; } } }
        }
    }
    let good = Value::Map(vec![(Value::from(1), Value::from(4))]);
    let bad = Value::Map(vec![(Value::from(2), Value::Bytes(vec![1]))]);
    for (arr, want) in [(vec![], true), (vec![good.clone()], true), (vec![good.clone(), good.clone()], true), (vec![good.clone(), bad.clone()], false), (vec![bad.clone()], false)] {
        n += 1;
        let r = CoseKeySet::from_cbor_value(Value::Array(arr.clone()));
        if r.is_ok() != want || matches!(r.map(|s| s.0.len() == arr.len()), Ok(false)) { if report("C10", format!("COSE_KeySet of {} elements: wrong verdict or length", arr.len())) { return 1; } }
    }
    if CoseKeySet::from_cbor_value(good.clone()).is_ok() { if report("C10", format!("COSE_KeySet accepts a map")) { return 1; } }
    // the array helpers (trusted in the proofs): element order is kept in both directions, the FIRST bad element decides the error
    {
        let k = |kty: i64, kid: u8| Value::Map(vec![(Value::from(1), Value::from(kty)), (Value::from(2), Value::Bytes(vec![kid]))]);
        let arr = vec![k(4, 1), k(2, 2), k(1, 3), k(4, 4)];
        n += 1;
        match CoseKeySet::from_cbor_value(Value::Array(arr.clone())) {
            Ok(ks) => {
                let ids: Vec<Vec<u8>> = ks.0.iter().map(|x| x.key_id.clone()).collect();
                if ids != vec![vec![1u8], vec![2], vec![3], vec![4]] { if report("C10,C09,C07", format!("COSE_KeySet elements decoded out of order: {:?}", ids)) { return 1; } }
                if ks.to_cbor_value().ok() != Some(Value::Array(arr.clone())) { if report("C10,C11,C07", format!("COSE_KeySet does not encode back to the same array (order / content)")) { return 1; } }
            }
            Err(e) => { if report("C10", format!("COSE_KeySet of four good keys rejected: {:?}", e)) { return 1; } }
        }
        let dup = Value::Map(vec![(Value::from(1), Value::from(4)), (Value::from(1), Value::from(4))]);
        for (a2, first_is_dup) in [(vec![dup.clone(), Value::Null], true), (vec![Value::Null, dup.clone()], false)] {
            n += 1;
            let r = CoseKeySet::from_cbor_value(Value::Array(a2));
            let ok = match (&r, first_is_dup) { (Err(CoseError::DuplicateMapKey), true) => true, (Err(CoseError::UnexpectedItem(_, _)), false) => true, _ => false };
            if !ok { if report("C10,C12", format!("COSE_KeySet with two bad elements: error {:?} is not that of the first bad element", r.err())) { return 1; } }
        }
    }
    // a repeated label is reported as such even when the repeated entry's value is malformed too (the repeat is the first
    // defect in wire order: all earlier entries are fine) - COSE_Key, header map, CWT claims set
    {
        let bad_second: Vec<(i64, Value, Value)> = vec![(2, Value::Bytes(vec![1]), Value::Bytes(vec![])), (2, Value::Bytes(vec![1]), Value::from(1)), (3, Value::from(-7), Value::Null), (3, Value::from(-7), Value::from(99999)),
            (4, Value::Array(vec![Value::from(1)]), Value::Array(vec![])), (4, Value::Array(vec![Value::from(1)]), Value::Array(vec![Value::from(1), Value::from(1)])), (5, Value::Bytes(vec![1]), Value::Bytes(vec![])), (1, Value::from(4), Value::Null)];
        for (l, good, bad) in &bad_second {
            n += 1;
            let m = if *l == 1 { vec![(Value::from(1), good.clone()), (Value::from(1), bad.clone())] } else { vec![(Value::from(1), Value::from(4)), (Value::from(*l), good.clone()), (Value::from(*l), bad.clone())] };
            let r = CoseKey::from_cbor_value(Value::Map(m.clone()));
            if !matches!(r, Err(CoseError::DuplicateMapKey)) { if report("C12", format!("COSE_Key {} (label {} twice, second value malformed): got {:?}, the first defect in wire order is the repeated label", hex(&ser(&Value::Map(m))), l, r.map(|_| "Ok"))) { return 1; } }
        }
        let hbad: Vec<(i64, Value, Value)> = vec![(1, Value::from(-7), Value::Null), (2, Value::Array(vec![Value::from(1)]), Value::Array(vec![])), (3, Value::from(0), Value::Text("".into())), (4, Value::Bytes(vec![1]), Value::Bytes(vec![])),
            (5, Value::Bytes(vec![1]), Value::Null), (6, Value::Bytes(vec![1]), Value::Bytes(vec![])), (7, Value::Array(vec![Value::Bytes(vec![]), Value::Map(vec![]), Value::Bytes(vec![])]), Value::Array(vec![]))];
        for (l, good, bad) in &hbad {
            n += 1;
            let m = vec![(Value::from(*l), good.clone()), (Value::from(*l), bad.clone())];
            let r = Header::from_cbor_value(Value::Map(m.clone()));
            if !matches!(r, Err(CoseError::DuplicateMapKey)) { if report("C12", format!("header map {} (label {} twice, second value malformed): got {:?}, the first defect in wire order is the repeated label", hex(&ser(&Value::Map(m))), l, r.map(|_| "Ok"))) { return 1; } }
        }
        let cbad: Vec<(i64, Value, Value)> = vec![(1, Value::Text("i".into()), Value::from(1)), (4, Value::from(1), Value::Text("x".into())), (7, Value::Bytes(vec![1]), Value::Null)];
        for (l, good, bad) in &cbad {
            n += 1;
            let m = vec![(Value::from(*l), good.clone()), (Value::from(*l), bad.clone())];
            let r = cwt::ClaimsSet::from_cbor_value(Value::Map(m.clone()));
            if !matches!(r, Err(CoseError::DuplicateMapKey)) { if report("C12", format!("CWT claims set {} (claim {} twice, second value malformed): got {:?}, the first defect in wire order is the repeated name", hex(&ser(&Value::Map(m))), l, r.map(|_| "Ok"))) { return 1; } }
        }
    }
    println!("probe keys: {} cases, no disagreement", n);
    0
}

// ---------------------------------------------------------------- C18: CWT claims, KDF context
const CLAIMS: [i64; 17] = [-260, -259, -258, -257, 0, 1, 2, 3, 4, 5, 6, 7, 8, 9, 38, 39, 40];
pub fn claims_ref(v: &Value) -> bool {
    let m = match v { Value::Map(m) => m, _ => return false };
    let mut seen: Vec<Result<i64, String>> = vec![];
    for (k, val) in m {
        let l = match k {
            Value::Integer(i) => match i64::try_from(i128_of(i)) { Ok(x) if CLAIMS.contains(&x) || x < -65536 => Ok(x), _ => return false },
            Value::Text(t) => Err(t.clone()),
            _ => return false,
        };
        if seen.contains(&l) { return false; }
        seen.push(l.clone());
        let ok = match l {
            Ok(1) | Ok(2) | Ok(3) => matches!(val, Value::Text(_)),
            Ok(4) | Ok(5) | Ok(6) => match val { Value::Integer(i) => i64::try_from(i128_of(i)).is_ok(), Value::Float(_) => true, _ => false },
            Ok(7) => matches!(val, Value::Bytes(_)),
            _ => true,
        };
        if !ok { return false; }
    }
    true
}
pub fn probe_claims() -> i32 {
    let keys: Vec<Value> = vec![Value::from(0), Value::from(1), Value::from(2), Value::from(3), Value::from(4), Value::from(5), Value::from(6), Value::from(7), Value::from(8), Value::from(9),
        Value::from(10), Value::from(38), Value::from(40), Value::from(41), Value::from(-257), Value::from(-261), Value::from(-65536), Value::from(-65537), Value::Text("c".into()), Value::Bytes(vec![1])];
    let vals: Vec<Value> = vec![Value::Text("s".into()), Value::from(1), Value::from(-1), Value::Integer(Integer::try_from(1i128 << 63).unwrap()), Value::Float(1.5), Value::Float(f64::INFINITY),
        Value::Float(f64::NAN), Value::Float(-0.0), Value::Bytes(vec![]), Value::Bytes(vec![1]), Value::Null, Value::Array(vec![]), Value::Array(vec![Value::Text("a".into())]), Value::Array(vec![Value::from(1)])];
    let mut n = 0u64;
    let mut maps: Vec<Vec<(Value, Value)>> = vec![vec![]];
    for k in &keys { for v in &vals { maps.push(vec![(k.clone(), v.clone())]); } }
    for k1 in &keys { for k2 in &keys { maps.push(vec![(k1.clone(), Value::Text("a".into())), (k2.clone(), Value::Text("b".into()))]); maps.push(vec![(k1.clone(), Value::from(5)), (Value::from(-70000), Value::Null), (k2.clone(), Value::from(6))]); } }
    { let mut r = Rng::from_env(); for _ in 0..scale(6000) { if let Value::Map(m) = gen_claims(&mut r) { maps.push(m); } }
      for _ in 0..scale(300) { if let Value::Map(m) = gen_long_dup(&mut r, None, &|i| Value::from(-70000 - i)) { maps.push(m); } } }
    for m in &maps {
        n += 1;
        let v = Value::Map(m.clone());
        let want = claims_ref(&v);
        let got = cwt::ClaimsSet::from_cbor_value(v.clone());
        let mut b = vec![]; ciborium::ser::into_writer(&v, &mut b).unwrap();
        let dupk = (0..m.len()).any(|a| (0..a).any(|b2| m[a].0 == m[b2].0));
        if got.is_ok() != want { if report(if dupk { "C18,C12" } else { "C18,C17" }, format!("CWT claims set {}: crate {} it, RFC 8392 says {}", hex(&b), if got.is_ok() { "accepts" } else { "rejects" }, if want { "accept" } else { "reject" })) { return 1; } }
        if let Ok(c) = got {
            let get = |x: i64| m.iter().find(|(kk, _)| matches!(kk, Value::Integer(i) if i128_of(i) == x as i128)).map(|(_, v)| v.clone());
            let t = |o: &Option<String>| o.clone().map(Value::Text);
            let ts = |o: &Option<cwt::Timestamp>| o.clone().map(|x| x.to_cbor_value().unwrap());
            let same = |a: Option<Value>, b: Option<Value>| match (&a, &b) { (Some(Value::Float(x)), Some(Value::Float(y))) => x.to_bits() == y.to_bits() || (x.is_nan() && y.is_nan()), _ => a == b };
            if t(&c.issuer) != get(1) || t(&c.subject) != get(2) || t(&c.audience) != get(3) || !same(ts(&c.expiration_time), get(4)) || !same(ts(&c.not_before), get(5)) || !same(ts(&c.issued_at), get(6))
                || c.cwt_id.clone().map(Value::Bytes) != get(7) { if report("C18", format!("CWT claims set {}: a typed claim differs from the wire", hex(&b))) { return 1; } }
            let rest: Vec<(Value, Value)> = m.iter().filter(|(kk, _)| !matches!(kk, Value::Integer(i) if (1..=7).contains(&i128_of(i)))).cloned().collect();
            let gotr: Vec<(Value, Value)> = c.rest.iter().map(|(l, v)| (l.clone().to_cbor_value().unwrap(), v.clone())).collect();
            if rest.len() != gotr.len() || rest.iter().zip(&gotr).any(|(a, b)| a.0 != b.0 || !same(Some(a.1.clone()), Some(b.1.clone()))) { if report("C18", format!("CWT claims set {}: other claims differ (content or order)", hex(&b))) { return 1; } }
        }
    }
    // KDF context: arities 0..7, slot kinds
    let party = |a: Value, b: Value, c: Value| Value::Array(vec![a, b, c]);
    let okp = party(Value::Null, Value::Null, Value::Null);
    let supp = Value::Array(vec![Value::from(128), Value::Bytes(vec![])]);
    let slot_kinds: Vec<Value> = vec![Value::Null, Value::Bytes(vec![1]), Value::from(3), Value::from(-3), Value::Text("t".into()), Value::Array(vec![]), Value::Integer(Integer::try_from(1i128 << 63).unwrap())];
    for ar in 0..8usize {
        n += 1;
        let mut a = vec![Value::from(1), okp.clone(), okp.clone(), supp.clone()];
        while a.len() < ar { a.push(Value::Bytes(vec![a.len() as u8])); }
        a.truncate(ar);
        let r = CoseKdfContext::from_cbor_value(Value::Array(a.clone()));
        if r.is_ok() != (ar >= 4) { if report("C18", format!("COSE_KDF_Context of arity {}: ok={}", ar, r.is_ok())) { return 1; } }
        if let Ok(c) = r { if c.to_cbor_value().ok() != Some(Value::Array(a.clone())) { if report("C18", format!("COSE_KDF_Context of arity {} does not encode back to the same array", ar)) { return 1; } } }
    }
    for (i, k) in slot_kinds.iter().enumerate() { for pos in 0..3 {
        n += 1;
        let mut p = vec![Value::Null, Value::Null, Value::Null]; p[pos] = k.clone();
        let want = match (pos, i) { (_, 0) | (_, 1) => true, (1, 2) | (1, 3) => true, _ => false };
        let r = PartyInfo::from_cbor_value(Value::Array(p.clone()));
        if r.is_ok() != want { if report("C18", format!("PartyInfo slot {} holding kind #{}: ok={} want {}", pos, i, r.is_ok(), want)) { return 1; } }
        if let Ok(x) = r { if x.to_cbor_value().ok() != Some(Value::Array(p.clone())) { if report("C18", format!("PartyInfo does not encode back")) { return 1; } } }
        let a = vec![Value::from(1), okp.clone(), Value::Array(p), supp.clone(), Value::Bytes(vec![])];
        if CoseKdfContext::from_cbor_value(Value::Array(a)).is_ok() != want { if report("C18", format!("COSE_KDF_Context with PartyV slot {} kind #{}", pos, i)) { return 1; } }
    } }
    for (sp, want) in [(vec![Value::from(1)], false), (vec![Value::from(-1), Value::Bytes(vec![])], false), (vec![Value::from(1), Value::Bytes(vec![]), Value::Bytes(vec![2])], true),
                       (vec![Value::from(1), Value::Bytes(vec![]), Value::Null], false), (vec![Value::from(1), Value::Bytes(vec![0xa0, 0x00])], false), (vec![Value::from(u64::MAX), Value::Bytes(vec![0xa0])], true)] {
        n += 1;
        let r = SuppPubInfo::from_cbor_value(Value::Array(sp.clone()));
        if r.is_ok() != want { if report("C18", format!("SuppPubInfo {:?}: want ok={}", sp, want)) { return 1; } }
        if let Ok(x) = r { if x.to_cbor_value().ok() != Some(Value::Array(sp.clone())) { if report("C18", format!("SuppPubInfo {:?} does not encode back to the same array", sp)) { return 1; } } }
    }
    // present-but-empty optional slots must survive: SuppPubInfo.other = h'', trailing SuppPrivInfo entries h'', PartyInfo slots h''
    for sp in [vec![Value::from(1), Value::Bytes(vec![]), Value::Bytes(vec![])], vec![Value::from(128), Value::Bytes(vec![0xa0]), Value::Bytes(vec![])]] {
        n += 1;
        match SuppPubInfo::from_cbor_value(Value::Array(sp.clone())) {
            Ok(x) => { if x.to_cbor_value().ok() != Some(Value::Array(sp.clone())) { if report("C18", format!("SuppPubInfo {:?} (empty `other`) does not encode back to the same array", sp)) { return 1; } } }
            Err(_) => { if report("C18", format!("SuppPubInfo {:?} rejected", sp)) { return 1; } }
        }
        let e = || Value::Bytes(vec![]);
        for a in [vec![Value::from(1), party(e(), e(), e()), party(e(), Value::from(0), e()), Value::Array(sp.clone())],
                  vec![Value::from(1), okp.clone(), okp.clone(), Value::Array(sp.clone()), e()],
                  vec![Value::from(1), okp.clone(), party(Value::Null, e(), Value::Null), Value::Array(sp.clone()), e(), Value::Bytes(vec![7]), e()]] {
            n += 1;
            match CoseKdfContext::from_cbor_value(Value::Array(a.clone())) {
                Ok(c) => { if c.to_cbor_value().ok() != Some(Value::Array(a.clone())) { if report("C18", format!("COSE_KDF_Context {:?} (empty optional slots) does not encode back to the same array", a)) { return 1; } } }
                Err(_) => { if report("C18", format!("COSE_KDF_Context {:?} rejected", a)) { return 1; } }
            }
        }
    }
    println!("probe claims: {} cases, no disagreement", n);
    0
}

// ---------------------------------------------------------------- C19: builders vs a plain reference model
pub fn probe_builders() -> i32 {
    #[derive(Clone)]
    enum Call { KeyId(Vec<u8>), Alg, Crit(iana::HeaderParameter), CritLabel(RegisteredLabel<iana::HeaderParameter>), Cf, Ct(String), Iv(Vec<u8>), Piv(Vec<u8>), CounterSig, Value(i64), Text(String) }
    let calls = vec![Call::KeyId(vec![1]), Call::KeyId(vec![]), Call::Alg, Call::Crit(iana::HeaderParameter::Alg), Call::Crit(iana::HeaderParameter::Kid), Call::CritLabel(RegisteredLabel::Assigned(iana::HeaderParameter::Alg)),
        Call::CritLabel(RegisteredLabel::Text("x".into())), Call::Cf, Call::Ct("a/b".into()), Call::Ct(" a/b ".into()), Call::Ct("  ".into()), Call::Ct("".into()), Call::Iv(vec![5]), Call::Iv(vec![]), Call::Piv(vec![6]), Call::CounterSig, Call::Value(1000), Call::Value(0), Call::Value(8), Call::Text("t".into())];
    let apply = |b: HeaderBuilder, m: &mut Header, c: &Call| -> HeaderBuilder { match c {
        Call::KeyId(k) => { m.key_id = k.clone(); b.key_id(k.clone()) }
        Call::Alg => { m.alg = Some(Algorithm::Assigned(iana::Algorithm::ES256)); b.algorithm(iana::Algorithm::ES256) }
        Call::Crit(p) => { m.crit.push(RegisteredLabel::Assigned(*p)); b.add_critical(*p) }
        Call::CritLabel(l) => { m.crit.push(l.clone()); b.add_critical_label(l.clone()) }
        Call::Cf => { m.content_type = Some(ContentType::Assigned(iana::CoapContentFormat::Cbor)); b.content_format(iana::CoapContentFormat::Cbor) }
        Call::Ct(t) => { m.content_type = Some(ContentType::Text(t.clone())); b.content_type(t.clone()) }
        Call::Iv(v) => { m.iv = v.clone(); m.partial_iv.clear(); b.iv(v.clone()) }
        Call::Piv(v) => { m.partial_iv = v.clone(); m.iv.clear(); b.partial_iv(v.clone()) }
        Call::CounterSig => { let s = CoseSignature { signature: vec![1], ..Default::default() }; m.counter_signatures.push(s.clone()); b.add_counter_signature(s) }
        Call::Value(l) => { m.rest.push((Label::Int(*l), Value::from(1))); b.value(*l, Value::from(1)) }
        Call::Text(t) => { m.rest.push((Label::Text(t.clone()), Value::Null)); b.text_value(t.clone(), Value::Null) }
    } };
    let mut n = 0u64;
    for a in &calls { for b in &calls { for c in &calls {
        n += 1;
        let mut model = Header::default();
        let mut bld = HeaderBuilder::new();
        for call in [a, b, c] { bld = apply(bld, &mut model, call); }
        let built = bld.build();
        if built != model { if report("C19", format!("HeaderBuilder sequence #{}: built {:?}, documented effects give {:?}", n, built, model)) { return 1; } }
        if !built.iv.is_empty() && !built.partial_iv.is_empty() { if report("C19", format!("HeaderBuilder sequence #{} carries both IV and Partial IV", n)) { return 1; } }
    } } }
    // generated longer call sequences (seeded)
    {
        let mut r = Rng::from_env();
        for _ in 0..scale(3000) {
            n += 1;
            let len = 1 + r.below(8);
            let mut model = Header::default();
            let mut bld = HeaderBuilder::new();
            let mut trace = vec![];
            for _ in 0..len { let c = r.pick(&calls); trace.push(calls.iter().position(|x| std::mem::discriminant(x) == std::mem::discriminant(&c)).unwrap_or(0)); bld = apply(bld, &mut model, &c); }
            let built = bld.build();
            if built != model { if report("C19", format!("HeaderBuilder generated sequence (call kinds {:?}): built {:?}, documented effects give {:?}", trace, built, model)) { return 1; } }
            if !built.iv.is_empty() && !built.partial_iv.is_empty() { if report("C19", format!("HeaderBuilder generated sequence {:?} carries both IV and Partial IV", trace)) { return 1; } }
        }
    }
    // reserved labels are refused (documented panic), every other label is appended
    std::panic::set_hook(Box::new(|_| {}));
    for l in -2i64..=12 {
        n += 1;
        let r = std::panic::catch_unwind(|| HeaderBuilder::new().value(l, Value::Null).build());
        if r.is_err() != (1..=7).contains(&l) { if report("C19", format!("HeaderBuilder::value({}) panicked={}", l, r.is_err())) { return 1; } }
        let r = std::panic::catch_unwind(|| CoseKeyBuilder::new_okp_key().param(l, Value::Null).build());
        if r.is_err() != (0..=5).contains(&l) { if report("C19", format!("CoseKeyBuilder::param({}) panicked={}", l, r.is_err())) { return 1; } }
    }
    for (c, reserved) in [(iana::CwtClaimName::Iss, true), (iana::CwtClaimName::Sub, true), (iana::CwtClaimName::Aud, true), (iana::CwtClaimName::Exp, true), (iana::CwtClaimName::Nbf, true),
                          (iana::CwtClaimName::Iat, true), (iana::CwtClaimName::Cti, true), (iana::CwtClaimName::Cnf, false), (iana::CwtClaimName::Scope, false), (iana::CwtClaimName::CNonce, false)] {
        n += 1;
        let r = std::panic::catch_unwind(|| cwt::ClaimsSetBuilder::new().claim(c, Value::Null).build());
        if r.is_err() != reserved { if report("C19", format!("ClaimsSetBuilder::claim({:?}) panicked={}, reserved={}", c, r.is_err(), reserved)) { return 1; } }
        if let Ok(cs) = r { if cs.rest.len() != 1 { if report("C19", format!("ClaimsSetBuilder::claim({:?}) did not append exactly one extra claim", c)) { return 1; } } }
    }
    for id in [-65538i64, -65537, -65536, -1, 0, 1, 100000] {
        n += 1;
        let r = std::panic::catch_unwind(|| cwt::ClaimsSetBuilder::new().private_claim(id, Value::Null).build());
        if r.is_err() != (id >= -65536) { if report("C19", format!("ClaimsSetBuilder::private_claim({}) panicked={}", id, r.is_err())) { return 1; } }
    }
    // message builders: setter replaces only its field; protected setter drops retained bytes
    let h1 = HeaderBuilder::new().key_id(vec![1]).build();
    let h2 = HeaderBuilder::new().key_id(vec![2]).build();
    let s = CoseSign1Builder::new().protected(h1.clone()).unprotected(h2.clone()).payload(vec![3]).signature(vec![4]).protected(h2.clone()).build();
    let want = CoseSign1 { protected: ProtectedHeader { original_data: None, header: h2.clone() }, unprotected: h2.clone(), payload: Some(vec![3]), signature: vec![4] };
    if s != want { if report("C19", format!("CoseSign1Builder protected/unprotected/payload/signature/protected: {:?}", s)) { return 1; } }
    let k = CoseKeyBuilder::new_ec2_priv_key(iana::EllipticCurve::P_256, vec![1], vec![2], vec![3]).key_id(vec![9]).add_key_op(iana::KeyOperation::Sign).add_key_op(iana::KeyOperation::Sign).build();
    if k.kty != KeyType::Assigned(iana::KeyType::EC2) || k.key_id != vec![9] || k.key_ops.len() != 1 || k.alg.is_some() || !k.base_iv.is_empty()
        || k.params != vec![(Label::Int(-1), Value::from(1)), (Label::Int(-2), Value::Bytes(vec![1])), (Label::Int(-3), Value::Bytes(vec![2])), (Label::Int(-4), Value::Bytes(vec![3]))] {
        if report("C19", format!("CoseKeyBuilder::new_ec2_priv_key(..).key_id.add_key_op x2: {:?}", k)) { return 1; } }
    // constructors: the key type is what the constructor's name says, for every curve value
    for crv in [iana::EllipticCurve::P_256, iana::EllipticCurve::P_384, iana::EllipticCurve::P_521, iana::EllipticCurve::X25519, iana::EllipticCurve::X448, iana::EllipticCurve::Ed25519, iana::EllipticCurve::Ed448, iana::EllipticCurve::Secp256k1, iana::EllipticCurve::Reserved] {
        n += 3;
        let ks = [CoseKeyBuilder::new_ec2_pub_key(crv, vec![1], vec![2]).build(), CoseKeyBuilder::new_ec2_pub_key_y_sign(crv, vec![1], true).build(), CoseKeyBuilder::new_ec2_priv_key(crv, vec![1], vec![2], vec![3]).build()];
        for (i, k) in ks.iter().enumerate() {
            let crv_ok = k.params.first() == Some(&(Label::Int(-1), Value::from(crv as i64)));
            if k.kty != KeyType::Assigned(iana::KeyType::EC2) || !crv_ok || k.params.len() != [3, 3, 4][i] { if report("C19", format!("CoseKeyBuilder EC2 constructor #{} with curve {:?}: kty {:?}, params {:?}", i, crv, k.kty, k.params)) { return 1; } }
        }
    }
    { n += 2;
      let k = CoseKeyBuilder::new_symmetric_key(vec![7]).build();
      if k.kty != KeyType::Assigned(iana::KeyType::Symmetric) || k.params != vec![(Label::Int(-1), Value::Bytes(vec![7]))] { if report("C19", format!("CoseKeyBuilder::new_symmetric_key: {:?}", k)) { return 1; } }
      let k = CoseKeyBuilder::new_okp_key().build();
      if k.kty != KeyType::Assigned(iana::KeyType::OKP) || !k.params.is_empty() { if report("C19", format!("CoseKeyBuilder::new_okp_key: {:?}", k)) { return 1; } } }
    // adders append: extra parameters / claims / critical labels / key operations keep call order, whatever their labels
    {
        n += 4;
        let k = CoseKeyBuilder::new_okp_key().param(-2, Value::from(1)).param(-1, Value::from(2)).param(-70000, Value::Null).param(8, Value::Null).param(-3, Value::Null).build();
        let want: Vec<(Label, Value)> = vec![(Label::Int(-2), Value::from(1)), (Label::Int(-1), Value::from(2)), (Label::Int(-70000), Value::Null), (Label::Int(8), Value::Null), (Label::Int(-3), Value::Null)];
        if k.params != want { if report("C19", format!("CoseKeyBuilder::param called with labels -2,-1,-70000,8,-3: params are {:?}, call order expected", k.params.iter().map(|x| x.0.clone()).collect::<Vec<_>>())) { return 1; } }
        let k2 = CoseKeyBuilder::new_ec2_pub_key(iana::EllipticCurve::P_256, vec![1], vec![2]).param(8, Value::Null).param(-70001, Value::Null).build();
        let labels: Vec<Label> = k2.params.iter().map(|x| x.0.clone()).collect();
        if labels != vec![Label::Int(-1), Label::Int(-2), Label::Int(-3), Label::Int(8), Label::Int(-70001)] { if report("C19", format!("CoseKeyBuilder::new_ec2_pub_key(..).param(8).param(-70001): params labels are {:?}", labels)) { return 1; } }
        let h = HeaderBuilder::new().value(100, Value::from(1)).text_value("b".into(), Value::Null).value(50, Value::from(2)).text_value("a".into(), Value::Null).value(-9, Value::Null)
            .add_critical(iana::HeaderParameter::Kid).add_critical(iana::HeaderParameter::Alg).build();
        let hl: Vec<Label> = h.rest.iter().map(|x| x.0.clone()).collect();
        if hl != vec![Label::Int(100), Label::Text("b".into()), Label::Int(50), Label::Text("a".into()), Label::Int(-9)]
            || h.crit != vec![RegisteredLabel::Assigned(iana::HeaderParameter::Kid), RegisteredLabel::Assigned(iana::HeaderParameter::Alg)] {
            if report("C19", format!("HeaderBuilder value/text_value/add_critical in a non-sorted order: rest {:?} crit {:?}", hl, h.crit)) { return 1; } }
        let c = cwt::ClaimsSetBuilder::new().claim(iana::CwtClaimName::Scope, Value::from(1)).text_claim("z".into(), Value::Null).claim(iana::CwtClaimName::Cnf, Value::from(2)).private_claim(-70000, Value::Null).text_claim("a".into(), Value::Null).build();
        let cl: Vec<String> = c.rest.iter().map(|x| format!("{:?}", x.0)).collect();
        let wantc: Vec<String> = vec![format!("{:?}", cwt::ClaimName::Assigned(iana::CwtClaimName::Scope)), format!("{:?}", cwt::ClaimName::Text("z".into())), format!("{:?}", cwt::ClaimName::Assigned(iana::CwtClaimName::Cnf)),
            format!("{:?}", cwt::ClaimName::PrivateUse(-70000)), format!("{:?}", cwt::ClaimName::Text("a".into()))];
        if cl != wantc { if report("C19", format!("ClaimsSetBuilder adders in a non-sorted order: rest names {:?}", cl)) { return 1; } }
    }
    println!("probe builders: {} cases, no disagreement", n);
    0
}

// ---------------------------------------------------------------- C07 / C11: decode -> encode -> decode fixed point
pub fn probe_roundtrip() -> i32 {
    let mut n = 0u64;
    // protected headers in non-canonical wire forms, floats incl. NaN in 16/32/64-bit form, unknown parameters, nested counter signatures
    let prot_wires: Vec<Vec<u8>> = vec![vec![], vec![0xa0], vec![0xbf, 0xff], vec![0xa1, 0x18, 0x01, 0x26], vec![0xa2, 0x04, 0x41, 0x01, 0x01, 0x26],
        vec![0xa1, 0x18, 0x63, 0xfb, 0x7f, 0xf8, 0, 0, 0, 0, 0, 0], vec![0xa1, 0x18, 0x63, 0xfa, 0x7f, 0xc0, 0, 0], vec![0xa1, 0x18, 0x63, 0xf9, 0x3e, 0x00],
        vec![0xa1, 0x07, 0x83, 0x43, 0xa1, 0x01, 0x26, 0xa0, 0x41, 0x07], vec![0xa2, 0x63, b'a', b'b', b'c', 0x01, 0x39, 0x01, 0x00, 0x9f, 0x01, 0xff],
        // counter signature whose own protected header is in a non-canonical form (wrapped empty map / non-minimal integer)
        vec![0xa1, 0x07, 0x83, 0x41, 0xa0, 0xa0, 0x41, 0x07], vec![0xa1, 0x07, 0x83, 0x44, 0xa1, 0x18, 0x01, 0x26, 0xa0, 0x41, 0x07]];
    let unprot: Vec<Vec<u8>> = vec![vec![0xa0], vec![0xa1, 0x04, 0x41, 0x0b],
        // every typed field at once plus extras with label 0, 8, negative, large and text labels
        vec![0xa9, 0x01, 0x26, 0x02, 0x81, 0x04, 0x03, 0x18, 0x3c, 0x04, 0x41, 0x01, 0x05, 0x41, 0x02, 0x00, 0x01, 0x08, 0xf6, 0x38, 0x63, 0x20, 0x61, b'z', 0x1a, 0x00, 0x01, 0x00, 0x00],
        vec![0xa2, 0x06, 0x42, 0x01, 0x02, 0x03, 0x63, b'a', b'/', b'b'], vec![0xa1, 0x00, 0xa1, 0x00, 0x80],
        // text content types the decoder accepts: inner blanks, parameters, non-ASCII
        [vec![0xa1u8, 0x03], tstr("a/b c")].concat(), [vec![0xa1u8, 0x03], tstr("text/plain; charset=utf-8")].concat(), [vec![0xa1u8, 0x03], tstr("é/ü x")].concat(), [vec![0xa1u8, 0x03], tstr("application/CBOR")].concat(), [vec![0xa1u8, 0x03], tstr("Multipart/Mixed; boundary=AbCdEf")].concat(), vec![0xa2, 0x19, 0x01, 0x00, 0x01, 0x18, 0x21, 0x81, 0x41, 0x00], vec![0xa1, 0x07, 0x82, 0x83, 0x40, 0xa0, 0x40, 0x83, 0x41, 0xa0, 0xa1, 0x05, 0x41, 0x01, 0x41, 0x02]];
    // C02: a decoded value written again carries the protected byte string exactly as received
    macro_rules! carries { ($t:ty, $bytes:expr, $prot:expr, $name:expr) => {{
        let b: Vec<u8> = $bytes;
        if let Ok(v) = <$t>::from_slice(&b) { if let Ok(re) = v.to_vec() {
            let want = bstr($prot);
            if !re.windows(want.len()).any(|w| w == &want[..]) { if report("C02,C07", format!("{} {}: re-encoding {} does not carry the received protected bytes {}", $name, hex(&b), hex(&re), hex($prot))) { return 1; } }
        } }
    }}; }
    macro_rules! fixed_point { ($t:ty, $bytes:expr, $name:expr) => {'fp: {
        n += 1;
        let b: Vec<u8> = $bytes;
        if let Ok(v) = <$t>::from_slice(&b) {
            let b1 = match v.clone().to_vec() { Ok(x) => x, Err(e) => { if report("C07", format!("{} {}: decoded value does not encode ({:?})", $name, hex(&b), e)) { return 1; } break 'fp; } };
            let v1 = match <$t>::from_slice(&b1) { Ok(x) => x, Err(e) => { if report("C07", format!("{} {}: re-encoding {} does not decode ({:?})", $name, hex(&b), hex(&b1), e)) { return 1; } break 'fp; } };
            let b2 = v1.clone().to_vec().unwrap();
            if b2 != b1 { if report("C07", format!("{} {}: encode is not a fixed point after one step ({} then {})", $name, hex(&b), hex(&b1), hex(&b2))) { return 1; } }
            if format!("{:?}", v1) != format!("{:?}", v) { if report("C07", format!("{} {}: value changed across encode/decode", $name, hex(&b))) { return 1; } }
        }
    }}; }
    for p in &prot_wires { for u in &unprot {
        let mut s1 = vec![0x84]; s1.extend(bstr(p)); s1.extend(u); s1.extend([0x41, 0x01, 0x41, 0x02]);
        fixed_point!(CoseSign1, s1.clone(), "COSE_Sign1");
        if let Ok(v) = CoseSign1::from_slice(&s1) {
            if v.protected.original_data.as_deref() != Some(&p[..]) { if report("C02,C07", format!("COSE_Sign1 {}: protected bytes not retained", hex(&s1))) { return 1; } }
            let re = v.clone().to_vec().unwrap();
            if !re.windows(bstr(p).len()).any(|w| w == &bstr(p)[..]) { if report("C02,C07", format!("COSE_Sign1 {}: re-encoding {} does not carry the received protected bytes", hex(&s1), hex(&re))) { return 1; } }
            let mut t = head(6, 18); t.extend(&s1);
            if CoseSign1::from_tagged_slice(&t).ok().and_then(|x| x.to_tagged_vec().ok()).map(|x| CoseSign1::from_tagged_slice(&x).is_ok()) != Some(true) { if report("C07,C14", format!("tagged COSE_Sign1 {} does not survive", hex(&t))) { return 1; } }
        }
        let mut m0 = vec![0x84]; m0.extend(bstr(p)); m0.extend(u); m0.extend([0xf6, 0x41, 0x02]);
        fixed_point!(CoseMac0, m0, "COSE_Mac0");
        let mut e0 = vec![0x83]; e0.extend(bstr(p)); e0.extend(u); e0.extend([0x41, 0x02]);
        fixed_point!(CoseEncrypt0, e0, "COSE_Encrypt0");
        let mut sig = vec![0x83]; sig.extend(bstr(p)); sig.extend(u); sig.extend([0x41, 0x09]);
        let mut sg = vec![0x84]; sg.extend(bstr(p)); sg.extend(u); sg.extend([0xf6, 0x82]); sg.extend(&sig); { let mut sig2 = sig.clone(); let l = sig2.len(); sig2[l - 1] = 0x0a; sg.extend(&sig2); }
        fixed_point!(CoseSign, sg, "COSE_Sign");
        let mut rc = vec![0x84]; rc.extend(bstr(p)); rc.extend(u); rc.extend([0x40, 0x81, 0x83]); rc.extend(bstr(p)); rc.extend([0xa0, 0xf6]);
        fixed_point!(CoseRecipient, rc.clone(), "COSE_recipient");
        let mut en = vec![0x84]; en.extend(bstr(p)); en.extend(u); en.extend([0xf6, 0x81]); en.extend(&rc);
        fixed_point!(CoseEncrypt, en, "COSE_Encrypt");
        let mut mc = vec![0x85]; mc.extend(bstr(p)); mc.extend(u); mc.extend([0x41, 0x01, 0x41, 0x02, 0x80]);
        fixed_point!(CoseMac, mc, "COSE_Mac");
        { let mut m0 = vec![0x84]; m0.extend(bstr(p)); m0.extend(u); m0.extend([0xf6, 0x41, 0x02]); carries!(CoseMac0, m0, p, "COSE_Mac0"); }
        { let mut e0 = vec![0x83]; e0.extend(bstr(p)); e0.extend(u); e0.extend([0x41, 0x02]); carries!(CoseEncrypt0, e0, p, "COSE_Encrypt0"); }
        { let mut sg2 = vec![0x84, 0x40, 0xa0, 0xf6, 0x81, 0x83]; sg2.extend(bstr(p)); sg2.extend([0xa0, 0x41, 0x09]); carries!(CoseSign, sg2, p, "COSE_Sign signer"); }
        { let mut rc2 = vec![0x84, 0x40, 0xa0, 0x40, 0x81, 0x83]; rc2.extend(bstr(p)); rc2.extend([0xa0, 0xf6]); carries!(CoseRecipient, rc2, p, "nested COSE_recipient"); }
        { let mut kd = vec![0x84, 0x01, 0x83, 0xf6, 0xf6, 0xf6, 0x83, 0xf6, 0xf6, 0xf6, 0x82, 0x18, 0x80]; kd.extend(bstr(p)); carries!(CoseKdfContext, kd, p, "COSE_KDF_Context SuppPubInfo"); }
        { let mut sp = vec![0x82, 0x18, 0x80]; sp.extend(bstr(p)); carries!(SuppPubInfo, sp, p, "SuppPubInfo"); }
        fixed_point!(Header, p.clone(), "header map");
        fixed_point!(Header, u.clone(), "header map");
    } }
    // C02 through the builders: a part that was decoded (a signer, a recipient, a counter signature) and is then put into a
    // new message by a builder keeps its protected bytes - in what the signing closure is handed and in what is written
    if relevant("C02") {
        for p in &prot_wires {
            let mut sigb = vec![0x83]; sigb.extend(bstr(p)); sigb.extend([0xa0, 0x41, 0x09]);
            let sig = match CoseSignature::from_slice(&sigb) { Ok(x) => x, Err(_) => continue };
            if sig.protected.original_data.as_deref() != Some(&p[..]) { continue; }
            let want = bstr(p);
            let has = |hay: &[u8]| hay.windows(want.len()).any(|w| w == &want[..]);
            let hdr = HeaderBuilder::new().key_id(vec![1]).build();
            n += 6;
            let mut seen: Vec<Vec<u8>> = vec![];
            let m1 = CoseSignBuilder::new().protected(hdr.clone()).payload(vec![1, 2]).add_created_signature(sig.clone(), b"aad", |d| { seen.push(d.to_vec()); vec![1] }).build();
            let m2 = CoseSignBuilder::new().protected(hdr.clone()).payload(vec![1, 2]).try_add_created_signature(sig.clone(), b"aad", |d| -> Result<Vec<u8>, ()> { seen.push(d.to_vec()); Ok(vec![1]) }).unwrap().build();
            let m3 = CoseSignBuilder::new().protected(hdr.clone()).add_detached_signature(sig.clone(), b"pl", b"aad", |d| { seen.push(d.to_vec()); vec![1] }).build();
            let m4 = CoseSignBuilder::new().protected(hdr.clone()).try_add_detached_signature(sig.clone(), b"pl", b"aad", |d| -> Result<Vec<u8>, ()> { seen.push(d.to_vec()); Ok(vec![1]) }).unwrap().build();
            let m5 = CoseSignBuilder::new().protected(hdr.clone()).add_signature(sig.clone()).build();
            for (i, d) in seen.iter().enumerate() { if !has(d) { println!("FAILING-INPUT CoseSignBuilder signature helper #{} given the signer decoded from {}: the to-be-signed bytes {} do not carry the signer's received protected bytes {}", i, hex(&sigb), hex(d), hex(p)); return 1; } }
            for (i, m) in vec![m1, m2, m3, m4, m5].into_iter().enumerate() { let w = m.to_vec().unwrap(); if !has(&w) { println!("FAILING-INPUT COSE_Sign built (helper #{}) around the signer decoded from {}: the encoding {} does not carry the signer's received protected bytes {}", i, hex(&sigb), hex(&w), hex(p)); return 1; } }
            let hb = HeaderBuilder::new().add_counter_signature(sig.clone()).build();
            let w = CoseSign1Builder::new().unprotected(hb).build().to_vec().unwrap();
            if !has(&w) { println!("FAILING-INPUT COSE_Sign1 built with the counter signature decoded from {}: the encoding {} does not carry its received protected bytes {}", hex(&sigb), hex(&w), hex(p)); return 1; }
            let mut rcb = vec![0x83]; rcb.extend(bstr(p)); rcb.extend([0xa0, 0xf6]);
            if let Ok(rc) = CoseRecipient::from_slice(&rcb) {
                n += 3;
                let e = CoseEncryptBuilder::new().add_recipient(rc.clone()).build().to_vec().unwrap();
                let m = CoseMacBuilder::new().add_recipient(rc.clone()).build().to_vec().unwrap();
                let r2 = CoseRecipientBuilder::new().add_recipient(rc.clone()).build().to_vec().unwrap();
                for (nm, w) in [("COSE_Encrypt", e), ("COSE_Mac", m), ("COSE_recipient", r2)] { if !has(&w) { println!("FAILING-INPUT {} built around the recipient decoded from {}: the encoding {} does not carry its received protected bytes {}", nm, hex(&rcb), hex(&w), hex(p)); return 1; } }
            }
        }
    }
    // a zero-length byte string in a payload / ciphertext slot is a present, empty value (nil is the absent one)
    {
        n += 6;
        if CoseSign1::from_slice(&[0x84, 0x40, 0xa0, 0x40, 0x40]).ok().map(|m| m.payload) != Some(Some(vec![])) { if report("C09,C07", format!("COSE_Sign1 with an empty bstr payload: payload field is not Some([])")) { return 1; } }
        if CoseSign::from_slice(&[0x84, 0x40, 0xa0, 0x40, 0x80]).ok().map(|m| m.payload) != Some(Some(vec![])) { if report("C09,C07", format!("COSE_Sign with an empty bstr payload: payload field is not Some([])")) { return 1; } }
        if CoseMac0::from_slice(&[0x84, 0x40, 0xa0, 0x40, 0x40]).ok().map(|m| m.payload) != Some(Some(vec![])) { if report("C09,C07", format!("COSE_Mac0 with an empty bstr payload: payload field is not Some([])")) { return 1; } }
        if CoseMac::from_slice(&[0x85, 0x40, 0xa0, 0x40, 0x40, 0x80]).ok().map(|m| m.payload) != Some(Some(vec![])) { if report("C09,C07", format!("COSE_Mac with an empty bstr payload: payload field is not Some([])")) { return 1; } }
        if CoseEncrypt0::from_slice(&[0x83, 0x40, 0xa0, 0x40]).ok().map(|m| m.ciphertext) != Some(Some(vec![])) { if report("C09,C07", format!("COSE_Encrypt0 with an empty bstr ciphertext: field is not Some([])")) { return 1; } }
        if CoseEncrypt::from_slice(&[0x84, 0x40, 0xa0, 0x40, 0x80]).ok().map(|m| m.ciphertext) != Some(Some(vec![])) { if report("C09,C07", format!("COSE_Encrypt with an empty bstr ciphertext: field is not Some([])")) { return 1; } }
        for b in [vec![0x84u8, 0x40, 0xa0, 0x40, 0x80], vec![0x85, 0x40, 0xa0, 0x40, 0x40, 0x80]] {
            if b[0] == 0x84 { fixed_point!(CoseSign, b.clone(), "COSE_Sign with empty payload"); if CoseSign::from_slice(&b).ok().and_then(|m| m.to_vec().ok()) != Some(b.clone()) { if report("C07,C09", format!("COSE_Sign {} does not re-encode to itself", hex(&b))) { return 1; } } }
            else { fixed_point!(CoseMac, b.clone(), "COSE_Mac with empty payload"); if CoseMac::from_slice(&b).ok().and_then(|m| m.to_vec().ok()) != Some(b.clone()) { if report("C07,C09", format!("COSE_Mac {} does not re-encode to itself", hex(&b))) { return 1; } } }
        }
    }
    // empty recipients list in a 4-element COSE_recipient encodes as 3 elements and stays there
    fixed_point!(CoseRecipient, vec![0x84, 0x40, 0xa0, 0xf6, 0x80], "COSE_recipient with empty list");
    for k in [vec![0xa1u8, 0x01, 0x04], vec![0xa3, 0x20, 0x01, 0x01, 0x02, 0x21, 0x41, 0x01], vec![0xa4, 0x01, 0x61, b'k', 0x04, 0x82, 0x02, 0x01, 0x03, 0x26, 0x61, b'z', 0xf5]] { fixed_point!(CoseKey, k, "COSE_Key"); }
    for c in [vec![0xa0u8], vec![0xa2, 0x04, 0xfb, 0x3f, 0xf8, 0, 0, 0, 0, 0, 0, 0x01, 0x61, b'i'],
              vec![0xa1, 0x04, 0xfb, 0x40, 0x00, 0, 0, 0, 0, 0, 0], vec![0xa1, 0x05, 0xf9, 0x40, 0x00], vec![0xa1, 0x06, 0xfa, 0x4e, 0xca, 0xa9, 0x0c], vec![0xa1, 0x06, 0xfb, 0xc1, 0xd9, 0x55, 0x21, 0x90, 0, 0, 0], vec![0xa3, 0x18, 0x26, 0x01, 0x06, 0xf9, 0x7c, 0x00, 0x07, 0x41, 0x01]] { fixed_point!(cwt::ClaimsSet, c, "CWT claims set"); }
    for c in [vec![0x84u8, 0x01, 0x83, 0xf6, 0xf6, 0xf6, 0x83, 0xf6, 0xf6, 0xf6, 0x83, 0x18, 0x80, 0x40, 0x40], vec![0x84u8, 0x01, 0x83, 0x40, 0xf6, 0x40, 0x83, 0xf6, 0x40, 0xf6, 0x82, 0x18, 0x80, 0x40],
              vec![0x84u8, 0x01, 0x83, 0xf6, 0xf6, 0xf6, 0x83, 0x41, 0x01, 0x20, 0xf6, 0x82, 0x18, 0x80, 0x43, 0xa1, 0x01, 0x26],
              vec![0x86, 0x01, 0x83, 0xf6, 0x41, 0x02, 0xf6, 0x83, 0xf6, 0xf6, 0xf6, 0x83, 0x18, 0x80, 0x40, 0x41, 0x05, 0x41, 0x06, 0x41, 0x07]] { fixed_point!(CoseKdfContext, c, "COSE_KDF_Context"); }
    // encode side (C11): in-memory values encode to the documented shape and decode back
    let hdr = HeaderBuilder::new().algorithm(iana::Algorithm::ES256).text_value("t".into(), Value::from(1)).value(99, Value::Null).text_value("a".into(), Value::from(2)).value(-5, Value::Null).build();
    let enc = hdr.clone().to_vec().unwrap();
    let want: Vec<u8> = [vec![0xa5, 0x01, 0x26], tstr("t"), vec![0x01, 0x18, 99, 0xf6], tstr("a"), vec![0x02, 0x24, 0xf6]].concat();
    n += 1;
    if enc != want { if report("C11", format!("Header with extras [t, 99, a, -5] encodes to {}, documented shape {}", hex(&enc), hex(&want))) { return 1; } }
    if Header::from_slice(&enc).ok() != Some(hdr.clone()) { if report("C11", format!("Header {} does not decode back to the value that was encoded", hex(&enc))) { return 1; } }
    let two = HeaderBuilder::new().add_counter_signature(CoseSignature::default()).add_counter_signature(CoseSignature { signature: vec![1], ..Default::default() }).build();
    let one = HeaderBuilder::new().add_counter_signature(CoseSignature { signature: vec![1], ..Default::default() }).build();
    n += 2;
    if one.clone().to_vec().unwrap() != vec![0xa1, 0x07, 0x83, 0x40, 0xa0, 0x41, 0x01] { if report("C11", format!("single counter signature is not inlined: {}", hex(&one.to_vec().unwrap()))) { return 1; } }
    if two.clone().to_vec().unwrap() != vec![0xa1, 0x07, 0x82, 0x83, 0x40, 0xa0, 0x40, 0x83, 0x40, 0xa0, 0x41, 0x01] { if report("C11", format!("two counter signatures: {}", hex(&two.to_vec().unwrap()))) { return 1; } }
    let s1 = CoseSign1Builder::new().protected(hdr.clone()).payload(vec![]).build();
    let b = s1.clone().to_vec().unwrap();
    let mut want = vec![0x84]; want.extend(bstr(&enc)); want.extend([0xa0, 0x40, 0x40]);
    n += 1;
    if b != want { if report("C11", format!("COSE_Sign1 built from that header encodes to {}, documented shape {}", hex(&b), hex(&want))) { return 1; } }
    // every well-formed in-memory header encodes: content types the decoder would accept
    for ct in ["a/b", "text/plain; charset=utf-8", "application/cose; cose-type=\"cose-sign1\"", "é/ü", "a/b c"] {
        n += 1;
        let h = HeaderBuilder::new().content_type(ct.to_string()).build();
        match h.clone().to_vec() {
            Ok(b) => { if Header::from_slice(&b).ok() != Some(h.clone()) { if report("C11", format!("Header with content type {:?} does not decode back", ct)) { return 1; } } }
            Err(e) => { if report("C11", format!("well-formed Header with content type {:?} does not encode: {:?}", ct, e)) { return 1; } }
        }
    }
    // a populated field is emitted whatever its value: registered values that are 0 / `Default` of their type included
    {
        let has = |v: &Value, k: i64| matches!(v, Value::Map(m) if m.iter().any(|(kk, _)| *kk == Value::from(k)));
        let hs: Vec<(Header, i64, &str)> = vec![
            (HeaderBuilder::new().algorithm(iana::Algorithm::Reserved).build(), 1, "alg = Reserved (0)"),
            (Header { alg: Some(Algorithm::default()), ..Default::default() }, 1, "alg = Algorithm::default()"),
            (HeaderBuilder::new().content_format(iana::CoapContentFormat::TextPlainUtf8).build(), 3, "content format 0"),
            (Header { content_type: Some(ContentType::Text(String::new())), ..Default::default() }, 3, "content type \"\" (in memory)"),
            (HeaderBuilder::new().add_critical(iana::HeaderParameter::Reserved).build(), 2, "crit [Reserved (0)]"),
            (HeaderBuilder::new().add_counter_signature(CoseSignature::default()).build(), 7, "a default counter signature"),
        ];
        for (h, k, what) in hs {
            n += 1;
            match h.clone().to_cbor_value() {
                Ok(v) => { if !has(&v, k) { if report("C11,C07", format!("Header with {}: label {} is missing from the encoding {}", what, k, hex(&ser(&v)))) { return 1; } }
                           if (k != 3 || what.starts_with("content format")) && k != 7 { if Header::from_cbor_value(v.clone()).ok() != Some(h.clone()) { if report("C11", format!("Header with {} does not decode back from {}", what, hex(&ser(&v)))) { return 1; } } } }
                Err(e) => { if report("C11", format!("Header with {} does not encode: {:?}", what, e)) { return 1; } }
            }
        }
        let ks: Vec<(CoseKey, i64, &str)> = vec![
            (CoseKey { kty: KeyType::Assigned(iana::KeyType::Symmetric), alg: Some(Algorithm::default()), ..Default::default() }, 3, "alg = Algorithm::default()"),
            (CoseKey { kty: KeyType::Assigned(iana::KeyType::Symmetric), params: vec![(Label::Int(-1), Value::Bytes(vec![]))], ..Default::default() }, -1, "k = h''"),
        ];
        for (k0, lab, what) in ks {
            n += 1;
            match k0.clone().to_cbor_value() {
                Ok(v) => { if !has(&v, lab) { if report("C11", format!("COSE_Key with {}: label {} is missing from the encoding {}", what, lab, hex(&ser(&v)))) { return 1; } }
                           if CoseKey::from_cbor_value(v.clone()).ok() != Some(k0.clone()) { if report("C11", format!("COSE_Key with {} does not decode back from {}", what, hex(&ser(&v)))) { return 1; } } }
                Err(e) => { if report("C11", format!("COSE_Key with {} does not encode: {:?}", what, e)) { return 1; } }
            }
        }
    }
    // a key set is the array of its keys' own encodings, each as it is held (no re-ordering of a member's parameters)
    {
        n += 1;
        let k1 = CoseKeyBuilder::new_symmetric_key(vec![1]).param(-70000, Value::Null).param(-3, Value::from(1)).param(100, Value::Null).build();
        let k2 = CoseKeyBuilder::new_okp_key().param(-2, Value::Bytes(vec![2])).param(-1, Value::from(6)).build();
        let set = CoseKeySet(vec![k1.clone(), k2.clone()]);
        let want = Value::Array(vec![k1.clone().to_cbor_value().unwrap(), k2.clone().to_cbor_value().unwrap()]);
        if set.clone().to_cbor_value().ok() != Some(want.clone()) { if report("C11", format!("COSE_KeySet encodes to {:?}, the array of its keys' encodings is {}", set.clone().to_cbor_value().ok().map(|v| hex(&ser(&v))), hex(&ser(&want)))) { return 1; } }
        if CoseKeySet::from_cbor_value(want.clone()).ok() != Some(set.clone()) { if report("C11", format!("COSE_KeySet {} does not decode back to the set that was encoded", hex(&ser(&want)))) { return 1; } }
    }
    // time claims keep their kind (integer vs float) across encode/decode
    for t in [cwt::Timestamp::WholeSeconds(2), cwt::Timestamp::WholeSeconds(-1), cwt::Timestamp::FractionalSeconds(2.0), cwt::Timestamp::FractionalSeconds(1.5),
              cwt::Timestamp::FractionalSeconds(1700000000.0), cwt::Timestamp::FractionalSeconds(-3.0), cwt::Timestamp::FractionalSeconds(0.0)] {
        n += 1;
        let c = cwt::ClaimsSetBuilder::new().expiration_time(t.clone()).not_before(t.clone()).issued_at(t.clone()).build();
        match c.clone().to_vec().ok().and_then(|b| cwt::ClaimsSet::from_slice(&b).ok()) {
            Some(c2) if c2 == c => {}
            other => { if report("C11,C18", format!("claims set with time claims {:?} does not decode back to the value that was encoded (got {:?})", t, other.map(|x| x.expiration_time))) { return 1; } }
        }
        let v = c.to_cbor_value().unwrap();
        if let Value::Map(m) = &v { for (_, val) in m { let is_float = matches!(val, Value::Float(_)); let want_float = matches!(t, cwt::Timestamp::FractionalSeconds(_));
            if is_float != want_float { if report("C11,C18", format!("time claim {:?} is encoded as {:?}", t, val)) { return 1; } } } }
    }
    let empty = CoseSign1Builder::new().build().to_vec().unwrap();
    if empty != vec![0x84, 0x40, 0xa0, 0xf6, 0x40] { if report("C11", format!("default COSE_Sign1 encodes to {}", hex(&empty))) { return 1; } }
    println!("probe roundtrip: {} cases, no disagreement", n);
    0
}
