#![allow(unused_imports, dead_code)]
extern crate alloc;
use vstd::prelude::*;
use alloc::{collections::BTreeSet, string::String, vec, vec::Vec};
verus! {
pub enum E { Dup, Bad }
pub struct H { pub alg: Option<u8>, pub rest: Vec<(i64, u8)> }

pub open spec fn distinct(s: Seq<(i64,u8)>) -> bool { forall |i: int, j: int| 0 <= i < j < s.len() ==> #[trigger] s[i].0 != #[trigger] s[j].0 }

fn dec(m: Vec<(i64, u8)>) -> (r: Result<H, E>)
    ensures r is Ok <==> distinct(m@),
            r matches Ok(h) ==> forall |k: int| 0 <= k < h.rest@.len() ==> h.rest@[k].0 != 1,
{
    broadcast use vstd::std_specs::btree::group_btree_axioms;
    let mut headers = H { alg: None, rest: Vec::new() };
    let mut seen = BTreeSet::new();
    for (l, value) in it: m.into_iter()
        invariant
            distinct(m@.subrange(0, it.index@)), 0 <= it.index@ <= m@.len(),
            forall |x: i64| seen@.contains(x) <==> exists |i: int| 0 <= i < it.index@ && m@[i].0 == x,
            forall |k: int| 0 <= k < headers.rest@.len() ==> headers.rest@[k].0 != 1,
    {
        let label = l;
        if seen.contains(&label) {
            proof {
                let i = choose |i: int| 0 <= i < it.index@ && m@[i].0 == label;
                assert(m@[i].0 == m@[it.index@].0);
            }
            return Err(E::Dup);
        }
        seen.insert(label.clone());
        match label {
            1 => headers.alg = Some(value),
            label => headers.rest.push((label, value)),
        }
        proof {
            let n = it.index@;
            assert(l == m@[n].0);
            let s1 = m@.subrange(0, n + 1);
            assert forall |i: int, j: int| 0 <= i < j < s1.len() implies #[trigger] s1[i].0 != #[trigger] s1[j].0 by {
                if j < n { assert(m@.subrange(0, n)[i].0 != m@.subrange(0, n)[j].0); } else { assert(seen@.contains(m@[i].0)); }
            }
        }
    }
    proof { assert(m@.subrange(0, m@.len() as int) =~= m@); }
    Ok(headers)
}
}
fn main(){}
