#![allow(unused_imports, dead_code)]
extern crate alloc;
use vstd::prelude::*;
use ciborium as cbor;
use ciborium::value::{Value, Integer};
use alloc::{borrow::ToOwned, boxed::Box, string::String, vec, vec::Vec};
verus! {
#[verifier::external_type_specification]
pub struct ExValue(Value);
#[verifier::external_type_specification]
#[verifier::external_body]
pub struct ExInteger(Integer);
#[verifier::external_type_specification]
#[verifier::external_body]
#[verifier::reject_recursive_types(T)]
pub struct ExSerError<T>(cbor::ser::Error<T>);

pub uninterp spec fn int_val(i: Integer) -> int;
pub enum CV { Int(int), Bytes(Seq<u8>), Float(f64), Text(Seq<char>), Bool(bool), Null, Tag(u64, Box<CV>), Array(Seq<CV>), Map(Seq<(CV, CV)>), Other, }
pub open spec fn vv(v: Value) -> CV
    decreases v
{
    match v {
        Value::Integer(i) => CV::Int(int_val(i)),
        Value::Bytes(b) => CV::Bytes(b@),
        Value::Float(f) => CV::Float(f),
        Value::Text(t) => CV::Text(t@),
        Value::Bool(b) => CV::Bool(b),
        Value::Null => CV::Null,
        Value::Tag(t, b) => CV::Tag(t, Box::new(vv(*b))),
        Value::Array(a) => CV::Array(Seq::new(a@.len(), |i: int| if 0 <= i < a@.len() { vv(a@[i]) } else { CV::Null })),
        Value::Map(m) => CV::Map(Seq::new(m@.len(), |i: int| if 0 <= i < m@.len() { (vv(m@[i].0), vv(m@[i].1)) } else { (CV::Null, CV::Null) })),
        _ => CV::Other,
    }
}
pub uninterp spec fn enc(v: CV) -> Seq<u8>;

#[derive(Clone, Debug, Default, PartialEq)]
pub struct Header {
    pub key_id: Vec<u8>,
    pub rest: Vec<(i64, Value)>,
}
#[derive(Clone, Debug, Default, PartialEq)]
pub struct ProtectedHeader {
    pub original_data: Option<Vec<u8>>,
    pub header: Header,
}
pub broadcast axiom fn axiom_derived_clone_protected_header(a: &ProtectedHeader, b: ProtectedHeader)
    ensures #[trigger] call_ensures(<ProtectedHeader as Clone>::clone, (a,), b) ==> b == *a;

#[derive(Debug)]
pub enum CoseError { EncodeFailed }
pub type Result<T, E = CoseError> = core::result::Result<T, E>;

pub uninterp spec fn prot_slot(p: ProtectedHeader) -> Option<Seq<u8>>;

impl ProtectedHeader {
    #[verifier::external_body]
    pub fn cbor_bstr(self) -> (r: Result<Value>)
        ensures
            prot_slot(self) matches Some(d) ==> (r matches Ok(v) && vv(v) == CV::Bytes(d)),
            prot_slot(self) is None ==> r is Err,
    {
        unimplemented!()
    }
}

pub assume_specification<T: Clone> [ <[T]>::to_vec ] (s: &[T]) -> (r: Vec<T>)
    ensures r@.len() == s@.len(), forall |i: int| 0 <= i < s@.len() ==> cloned(s@[i], #[trigger] r@[i]);
#[derive(Clone, Copy)]
pub enum SignatureContext { CoseSignature, CoseSign1, CounterSignature, }

pub open spec fn sig_ctx_text(c: SignatureContext) -> Seq<char> {
    match c { SignatureContext::CoseSignature => "Signature"@, SignatureContext::CoseSign1 => "Signature1"@, SignatureContext::CounterSignature => "CounterSignature"@ }
}

impl SignatureContext {
    fn text(&self) -> (r: &'static str)
       ensures r@ == sig_ctx_text(*self)
    {
        match self {
            SignatureContext::CoseSignature => "Signature",
            SignatureContext::CoseSign1 => "Signature1",
            SignatureContext::CounterSignature => "CounterSignature",
        }
    }
}

#[verifier::external_body]
pub fn into_writer_vec(value: &Value, writer: &mut Vec<u8>) -> (r: core::result::Result<(), cbor::ser::Error<<Vec<u8> as ciborium_io::Write>::Error>>)
    ensures r is Ok, final(writer)@ == old(writer)@ + enc(vv(*value))
{ cbor::ser::into_writer(value, writer) }

pub open spec fn sig_structure(context: SignatureContext, body: Seq<u8>, sign: Option<Seq<u8>>, aad: Seq<u8>, payload: Seq<u8>) -> CV {
    match sign {
        None => CV::Array(seq![CV::Text(sig_ctx_text(context)), CV::Bytes(body), CV::Bytes(aad), CV::Bytes(payload)]),
        Some(s) => CV::Array(seq![CV::Text(sig_ctx_text(context)), CV::Bytes(body), CV::Bytes(s), CV::Bytes(aad), CV::Bytes(payload)]),
    }
}

pub fn sig_structure_data(
    context: SignatureContext,
    body: ProtectedHeader,
    sign: Option<ProtectedHeader>,
    aad: &[u8],
    payload: &[u8],
) -> (r: Vec<u8>)
    requires prot_slot(body) is Some, sign matches Some(s) ==> prot_slot(s) is Some
    ensures r@ == enc(sig_structure(context, prot_slot(body)->0, match sign { Some(s) => Some(prot_slot(s)->0), None => None }, aad@, payload@))
{
    let ghost body0 = body; let ghost sign0 = sign;
    let mut arr = vec![
        Value::Text(context.text().to_owned()),
        body.cbor_bstr().expect("failed to serialize header"), // safe: always serializable
    ];
    if let Some(sign) = sign {
        arr.push(sign.cbor_bstr().expect("failed to serialize header")); // safe: always
                                                                         // serializable
    }
    arr.push(Value::Bytes(aad.to_vec()));
    arr.push(Value::Bytes(payload.to_vec()));
    let ghost arr0 = arr;
    proof {
        reveal_with_fuel(vv, 3);
        let want = sig_structure(context, prot_slot(body0)->0, match sign0 { Some(s) => Some(prot_slot(s)->0), None => None }, aad@, payload@);
        let got = vv(Value::Array(arr0))->Array_0;
        let n = arr0@.len() as int;
        assert(arr0@[n-1] matches Value::Bytes(b) && b@ =~= payload@);
        assert(arr0@[n-2] matches Value::Bytes(b) && b@ =~= aad@);
        assert(got.len() == want->Array_0.len());
        assert(got[0] == want->Array_0[0]);
        assert(got[1] == want->Array_0[1]);
        assert(got[got.len()-1] == want->Array_0[got.len()-1]);
        assert(got[got.len()-2] == want->Array_0[got.len()-2]);
        assert(vv(Value::Array(arr0))->Array_0 =~= want->Array_0);
    }
    let mut data = Vec::new();
    into_writer_vec(&Value::Array(arr), &mut data).unwrap(); // safe: always serializable
    data
}

pub struct CoseSign1 {
    pub protected: ProtectedHeader,
    pub payload: Option<Vec<u8>>,
    pub signature: Vec<u8>,
}
impl CoseSign1 {
    pub fn verify_signature<F, E>(&self, aad: &[u8], verifier: F) -> (r: Result<(), E>)
    where
        F: FnOnce(&[u8], &[u8]) -> Result<(), E>,
    requires prot_slot(self.protected) is Some,
       forall |a: &[u8], b: &[u8]| call_requires(verifier, (a, b)),
    ensures exists |s: &[u8], d: &[u8]| s@ == self.signature@ && d@ == enc(sig_structure(SignatureContext::CoseSign1, prot_slot(self.protected)->0, None, aad@, match self.payload { Some(p) => p@, None => Seq::<u8>::empty() })) && call_ensures(verifier, (s, d), r)
    {
        let tbs_data = self.tbs_data(aad);
        verifier(&self.signature, &tbs_data)
    }
    pub fn tbs_data(&self, aad: &[u8]) -> (r: Vec<u8>)
    requires prot_slot(self.protected) is Some,
    ensures r@ == enc(sig_structure(SignatureContext::CoseSign1, prot_slot(self.protected)->0, None, aad@, match self.payload { Some(p) => p@, None => Seq::<u8>::empty() }))
    {
        broadcast use axiom_derived_clone_protected_header;
        sig_structure_data(
            SignatureContext::CoseSign1,
            self.protected.clone(),
            None,
            aad,
            self.payload.as_ref().unwrap_or(&vec![]),
        )
    }
    pub fn tbs_detached_data(&self, payload: &[u8], aad: &[u8]) -> (r: Vec<u8>)
    requires prot_slot(self.protected) is Some, self.payload is None
    ensures r@ == enc(sig_structure(SignatureContext::CoseSign1, prot_slot(self.protected)->0, None, aad@, payload@))
    {
        broadcast use axiom_derived_clone_protected_header;
        assert!(self.payload.is_none());
        sig_structure_data(
            SignatureContext::CoseSign1,
            self.protected.clone(),
            None,
            aad,
            payload,
        )
    }
}
}
fn main(){}
