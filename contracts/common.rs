// Copyright 2021 Google LLC
//
// Licensed under the Apache License, Version 2.0 (the "License");
// you may not use this file except in compliance with the License.
// You may obtain a copy of the License at
//
//      http://www.apache.org/licenses/LICENSE-2.0
//
// Unless required by applicable law or agreed to in writing, software
// distributed under the License is distributed on an "AS IS" BASIS,
// WITHOUT WARRANTIES OR CONDITIONS OF ANY KIND, either express or implied.
// See the License for the specific language governing permissions and
// limitations under the License.
//
////////////////////////////////////////////////////////////////////////////////



use crate::{
    cbor,
    cbor::value::Value,
    iana,
    iana::{EnumI64, WithPrivateRange},
    util::{cbor_type_error, ValueTryAs},
};
use alloc::{boxed::Box, string::String, vec::Vec};
use core::{cmp::Ordering, convert::TryInto};


/// Marker structure indicating that the EOF was encountered when reading CBOR data.
#[derive(Debug)]
pub struct EndOfFile;

/// Error type for failures in encoding or decoding COSE types.
pub enum CoseError {
    /// CBOR decoding failure.
    DecodeFailed(cbor::de::Error<EndOfFile>),
    /// Duplicate map key detected.
    DuplicateMapKey,
    /// CBOR encoding failure.
    EncodeFailed,
    /// CBOR input had extra data.
    ExtraneousData,
    /// Integer value on the wire is outside the range of integers representable in this crate.
    /// See <https://crates.io/crates/coset/#integer-ranges>.
    OutOfRangeIntegerValue,
    /// Unexpected CBOR item encountered (got, want).
    UnexpectedItem(&'static str, &'static str),
    /// Unrecognized value in IANA-controlled range (with no private range).
    UnregisteredIanaValue,
    /// Unrecognized value in neither IANA-controlled range nor private range.
    UnregisteredIanaNonPrivateValue,
}

/// Crate-specific Result type
pub type Result<T, E = CoseError> = core::result::Result<T, E>;

impl<T> core::convert::From<cbor::de::Error<T>> for CoseError {
    #[verifier::external_body]
    fn from(e: cbor::de::Error<T>) ->« (r:» Self«) ensures r == CoseError::DecodeFailed(de_err_conv(e))» {
        // Make sure we use our [`EndOfFile`] marker.
        use cbor::de::Error::{Io, RecursionLimitExceeded, Semantic, Syntax};
        let e = match e {
            Io(_) => Io(EndOfFile),
            Syntax(x) => Syntax(x),
            Semantic(a, b) => Semantic(a, b),
            RecursionLimitExceeded => RecursionLimitExceeded,
        };
        CoseError::DecodeFailed(e)
    }
}

impl<T> core::convert::From<cbor::ser::Error<T>> for CoseError {
    #[verifier::external_body]
    fn from(_e: cbor::ser::Error<T>) -> Self {
        CoseError::EncodeFailed
    }
}«

impl vstd::std_specs::convert::FromSpecImpl<core::num::TryFromIntError> for CoseError {
    open spec fn obeys_from_spec() -> bool { true }
    open spec fn from_spec(v: core::num::TryFromIntError) -> Self { CoseError::OutOfRangeIntegerValue }
}
impl<T> vstd::std_specs::convert::FromSpecImpl<cbor::ser::Error<T>> for CoseError {
    // not needed: A-SER says serialisation into a Vec never fails, so this conversion is never taken
    open spec fn obeys_from_spec() -> bool { false }
    open spec fn from_spec(e: cbor::ser::Error<T>) -> Self { CoseError::EncodeFailed }
}
pub uninterp spec fn de_err_conv<T>(e: cbor::de::Error<T>) -> cbor::de::Error<EndOfFile>;
impl<T> vstd::std_specs::convert::FromSpecImpl<cbor::de::Error<T>> for CoseError {
    open spec fn obeys_from_spec() -> bool { true }
    open spec fn from_spec(e: cbor::de::Error<T>) -> Self { CoseError::DecodeFailed(de_err_conv(e)) }
}»

impl core::convert::From<core::num::TryFromIntError> for CoseError {
    fn from(_p1: core::num::TryFromIntError) -> Self {
        CoseError::OutOfRangeIntegerValue
    }
}

#[verifier::external]
impl core::fmt::Debug for CoseError {
    fn fmt(&self, f: &mut core::fmt::Formatter<'_>) -> core::fmt::Result {
        self.fmt_msg(f)
    }
}

#[verifier::external]
impl core::fmt::Display for CoseError {
    fn fmt(&self, f: &mut core::fmt::Formatter<'_>) -> core::fmt::Result {
        self.fmt_msg(f)
    }
}


impl CoseError {
    #[verifier::external]
    fn fmt_msg(&self, f: &mut core::fmt::Formatter<'_>) -> core::fmt::Result {
        match self {
            CoseError::DecodeFailed(e) => write!(f, "decode CBOR failure: {}", e),
            CoseError::DuplicateMapKey => write!(f, "duplicate map key"),
            CoseError::EncodeFailed => write!(f, "encode CBOR failure"),
            CoseError::ExtraneousData => write!(f, "extraneous data in CBOR input"),
            CoseError::OutOfRangeIntegerValue => write!(f, "out of range integer value"),
            CoseError::UnexpectedItem(got, want) => write!(f, "got {}, expected {}", got, want),
            CoseError::UnregisteredIanaValue => write!(f, "expected recognized IANA value"),
            CoseError::UnregisteredIanaNonPrivateValue => {
                write!(f, "expected value in IANA or private use range")
            }
        }
    }
}«

/// Read a CBOR [`Value`] from a byte slice, failing if any extra data remains after the `Value` has
/// been read.
pub open spec fn parse_all(b: Seq<u8>) -> Option<Value> {
    match crate::vprelude::parse(b) { Some((v, n)) => if n == b.len() { Some(v) } else { None }, None => None }
}»

/// Read a CBOR [`Value`] from a byte slice, failing if any extra data remains after the `Value` has
/// been read.
pub(crate) fn read_to_value(mut slice: &[u8]) ->« (r:» Result<Value>«)
    ensures
        match crate::vprelude::parse(slice@) {
            Some((v, n)) => if n == slice@.len() { r == Ok::<Value, CoseError>(v) } else { r matches Err(e) && e is ExtraneousData },
            None => r matches Err(e) && e is DecodeFailed,
        }
» {«
    broadcast use axiom_question_mark_uses_from;»
    let value = crate::vprelude::from_reader_slice(&mut slice)?;
    if slice.is_empty() {
        Ok(value)
    } else {
        Err(CoseError::ExtraneousData)
    }
}

/// Trait for types that can be converted to/from a [`Value`].
pub trait AsCborValue: Sized {«
    spec fn dec_rel(value: Value, r: Result<Self>) -> bool;
    spec fn enc_rel(self, r: Result<Value>) -> bool;»
    /// Convert a [`Value`] into an instance of the type.
    fn from_cbor_value(value: Value) ->« (r:» Result<Self>«) ensures Self::dec_rel(value, r)»;
    /// Convert the object into a [`Value`], consuming it along the way.
    fn to_cbor_value(self) ->« (r:» Result<Value>«) ensures self.enc_rel(r)»;
}

/// Extension trait that adds serialization/deserialization methods.
pub trait CborSerializable: AsCborValue {
    /// Create an object instance from serialized CBOR data in a slice.  This method will fail (with
    /// `CoseError::ExtraneousData`) if there is additional CBOR data after the object.
    fn from_slice(slice: &[u8]) ->« (r:» Result<Self>«)
        ensures
            match parse_all(slice@) { Some(v) => Self::dec_rel(v, r), None => r is Err },
   » {«
        broadcast use axiom_question_mark_uses_from;»
        Self::from_cbor_value(read_to_value(slice)?)
    }

    /// Serialize this object to a vector, consuming it along the way.
    fn to_vec(self) ->« (r:» Result<Vec<u8>>«)
        ensures
            r matches Ok(d) ==> exists |v: Value| #[trigger] self.enc_rel(Ok::<Value, CoseError>(v)) && d@ == crate::vprelude::enc(vv(v)),
            r matches Err(e) ==> self.enc_rel(Err::<Value, CoseError>(e)),» {«
        broadcast use axiom_question_mark_uses_from;»
        let mut data = Vec::new();
        crate::vprelude::into_writer_vec(&self.to_cbor_value()?, &mut data)?;
        Ok(data)
    }
}

/// Extension trait that adds tagged serialization/deserialization methods.
pub trait TaggedCborSerializable: AsCborValue {
    /// The associated tag value.
    const TAG: u64;

    /// Create an object instance from serialized CBOR data in a slice, expecting an initial
    /// tag value.
    fn from_tagged_slice(slice: &[u8]) ->« (r:» Result<Self>«)
        ensures
            match parse_all(slice@) {
                Some(v) => match v {
                    Value::Tag(t, inner) => if t == Self::TAG { Self::dec_rel(*inner, r) } else { r matches Err(e) && e is UnexpectedItem },
                    _ => r matches Err(e) && e is UnexpectedItem,
                },
                None => r is Err,
            },» {«
        broadcast use axiom_question_mark_uses_from;»
        let (t, v) = read_to_value(slice)?.try_as_tag()?;
        if t != Self::TAG {
            return Err(CoseError::UnexpectedItem("tag", "other tag"));
        }
        Self::from_cbor_value(*v)
    }

    /// Serialize this object to a vector, including initial tag, consuming the object along the
    /// way.
    fn to_tagged_vec(self) ->« (r:» Result<Vec<u8>>«)
        ensures
            r matches Ok(d) ==> exists |v: Value| #[trigger] self.enc_rel(Ok::<Value, CoseError>(v)) && d@ == crate::vprelude::enc(CV::Tag(Self::TAG, Box::new(vv(v)))),
            r matches Err(e) ==> self.enc_rel(Err::<Value, CoseError>(e)),» {«
        broadcast use axiom_question_mark_uses_from;»
        let mut data = Vec::new();
        crate::vprelude::into_writer_vec(
            &Value::Tag(Self::TAG, Box::new(self.to_cbor_value()?)),
            &mut data,
        )?;
        Ok(data)
    }
}

/// Trivial implementation of [`AsCborValue`] for [`Value`].
impl AsCborValue for Value {«
    open spec fn dec_rel(value: Value, r: crate::Result<Self>) -> bool { r == Ok::<Value, CoseError>(value) }
    open spec fn enc_rel(self, r: crate::Result<Value>) -> bool { r == Ok::<Value, CoseError>(self) }»
    fn from_cbor_value(value: Value) -> Result<Self> {
        Ok(value)
    }
    fn to_cbor_value(self) -> Result<Value> {
        Ok(self)
    }
}

impl CborSerializable for Value {}

/// Algorithm identifier.
pub type Algorithm = crate::RegisteredLabelWithPrivate<iana::Algorithm>;

impl Default for Algorithm {
    fn default() -> Self {
        Algorithm::Assigned(iana::Algorithm::Reserved)
    }
}

/// A COSE label may be either a signed integer value or a string.
#[derive(Clone, Debug, Eq, PartialEq)]
pub enum Label {
    Int(i64),
    Text(String),
}

impl CborSerializable for Label {}«
use crate::vprelude::*;

/// data-model value a label encodes to
pub open spec fn label_cv(l: Label) -> CV { match l { Label::Int(i) => CV::Int(i as int), Label::Text(t) => CV::Text(t@) } }
pub open spec fn reg_cv<T: EnumI64>(l: RegisteredLabel<T>) -> CV {
    match l { RegisteredLabel::Assigned(a) => CV::Int(a.spec_to_i64() as int), RegisteredLabel::Text(t) => CV::Text(t@) }
}
pub open spec fn regp_cv<T: EnumI64 + WithPrivateRange>(l: RegisteredLabelWithPrivate<T>) -> CV {
    match l {
        RegisteredLabelWithPrivate::PrivateUse(i) => CV::Int(i as int),
        RegisteredLabelWithPrivate::Assigned(a) => CV::Int(a.spec_to_i64() as int),
        RegisteredLabelWithPrivate::Text(t) => CV::Text(t@),
    }
}
/// RFC 7049 section 3.9 order on encodings: shorter first, then bytewise
pub open spec fn len_first_bytes_cmp(a: Seq<u8>, b: Seq<u8>) -> Ordering {
    if a.len() != b.len() { int_cmp(a.len() as int, b.len() as int) } else { lex_cmp(a, b) }
}
pub open spec fn label_cmp(a: Label, b: Label) -> Ordering {
    match (a, b) {
        (Label::Int(x), Label::Int(y)) => int_cmp(rank(x), rank(y)),
        (Label::Int(_), Label::Text(_)) => Ordering::Less,
        (Label::Text(_), Label::Int(_)) => Ordering::Greater,
        (Label::Text(x), Label::Text(y)) => text_cmp(x@, y@),
    }
}
impl vstd::std_specs::cmp::PartialEqSpecImpl for Label {
    open spec fn obeys_eq_spec() -> bool { true }
    open spec fn eq_spec(&self, other: &Self) -> bool { *self == *other }
}
impl vstd::std_specs::cmp::OrdSpecImpl for Label {
    open spec fn obeys_cmp_spec() -> bool { true }
    open spec fn cmp_spec(&self, other: &Self) -> Ordering { label_cmp(*self, *other) }
}
impl vstd::std_specs::cmp::PartialOrdSpecImpl for Label {
    open spec fn obeys_partial_cmp_spec() -> bool { true }
    open spec fn partial_cmp_spec(&self, other: &Self) -> Option<Ordering> { Some(label_cmp(*self, *other)) }
}
pub proof fn lemma_label_eq_cmp()
    ensures forall |x: Label, y: Label| (x == y) == (#[trigger] label_cmp(x, y) is Equal)
{
    lemma_lex_laws();
    broadcast use axiom_utf8_injective;
    broadcast use axiom_string_ext;
    assert forall |x: Label, y: Label| (x == y) == (#[trigger] label_cmp(x, y) is Equal) by {
        match (x, y) {
            (Label::Text(s), Label::Text(t)) => {
                if lex_cmp(utf8(s@), utf8(t@)) is Equal { lemma_lex_eq(utf8(s@), utf8(t@)); }
            }
            _ => {}
        }
    }
}
pub proof fn lemma_label_cmp_laws()
    ensures
        forall |x: Label, y: Label| (x == y) == (#[trigger] label_cmp(x, y) is Equal),
        forall |x: Label, y: Label| (#[trigger] label_cmp(x, y) is Less) == (label_cmp(y, x) is Greater),
        forall |x: Label, y: Label, z: Label| (#[trigger] label_cmp(x, y) is Less && #[trigger] label_cmp(y, z) is Less) ==> label_cmp(x, z) is Less,
        forall |x: Label, y: Label, z: Label| (#[trigger] label_cmp(x, y) is Greater && #[trigger] label_cmp(y, z) is Greater) ==> label_cmp(x, z) is Greater,
{
    lemma_lex_laws();
    lemma_label_eq_cmp();
}
pub proof fn lemma_label_obeys_cmp()
    ensures vstd::laws_cmp::obeys_cmp::<Label>()
{
    reveal(vstd::laws_eq::obeys_eq_spec_properties);
    reveal(vstd::laws_cmp::obeys_cmp_partial_ord);
    reveal(vstd::laws_cmp::obeys_cmp_ord);
    reveal(vstd::laws_cmp::obeys_partial_cmp_spec_properties);
    lemma_label_cmp_laws();
}
pub broadcast axiom fn axiom_derived_clone_label(a: &Label, b: Label)
    ensures #[trigger] call_ensures(<Label as Clone>::clone, (a,), b) ==> b == *a;»

/// Manual implementation of [`Ord`] to ensure that CBOR canonical ordering is respected.
///
/// Note that this uses the ordering given by RFC 8949 section 4.2.1 (lexicographic ordering of
/// encoded form), which is *different* from the canonical ordering defined in RFC 7049 section 3.9
/// (where the primary sorting criterion is the length of the encoded form)
impl Ord for Label {
    fn cmp(&self, other: &Self) -> Ordering {
        match (self, other) {
            (Label::Int(i1), Label::Int(i2)) => match (i1.signum(), i2.signum()) {
                (-1, -1) => i2.cmp(i1),
                (-1, 0) => Ordering::Greater,
                (-1, 1) => Ordering::Greater,
                (0, -1) => Ordering::Less,
                (0, 0) => Ordering::Equal,
                (0, 1) => Ordering::Less,
                (1, -1) => Ordering::Less,
                (1, 0) => Ordering::Greater,
                (1, 1) => i1.cmp(i2),
                (_, _) => unreachable!(), // safe: all possibilies covered
            },
            (Label::Int(_i1), Label::Text(_t2)) => Ordering::Less,
            (Label::Text(_t1), Label::Int(_i2)) => Ordering::Greater,
            (Label::Text(t1), Label::Text(t2)) => t1.len().cmp(&t2.len()).then(t1.cmp(t2)),
        }
    }
}

impl PartialOrd for Label {
    fn partial_cmp(&self, other: &Self) -> Option<Ordering> {
        Some(self.cmp(other))
    }
}

impl Label {
    /// Alternative ordering for `Label`, using the canonical ordering criteria from RFC 7049
    /// section 3.9 (where the primary sorting criterion is the length of the encoded form), rather
    /// than the ordering given by RFC 8949 section 4.2.1 (lexicographic ordering of encoded form).
    ///
    /// # Panics
    ///
    /// Panics if either `Label` fails to serialize.
    pub fn cmp_canonical(&self, other: &Self) ->« (r:» Ordering«)
        ensures r == len_first_bytes_cmp(crate::vprelude::enc(label_cv(*self)), crate::vprelude::enc(label_cv(*other))),» {«
        broadcast use axiom_derived_clone_label;»
        let encoded_self = self.clone().to_vec().unwrap(); /* safe: documented */
        let encoded_other = other.clone().to_vec().unwrap(); /* safe: documented */
        if encoded_self.len() != encoded_other.len() {
            // Shorter encoding sorts first.
            encoded_self.len().cmp(&encoded_other.len())
        } else {
            // Both encode to the same length, sort lexicographically on encoded form.
            crate::vprelude::bytes_cmp(&encoded_self, &encoded_other)
        }
    }
}

/// Indicate which ordering should be applied to CBOR values.
pub enum CborOrdering {
    /// Order values lexicographically, as per RFC 8949 section 4.2.1 (Core Deterministic Encoding
    /// Requirements)
    Lexicographic,
    /// Order values by encoded length, then by lexicographic ordering of encoded form, as per RFC
    /// 7049 section 3.9 (Canonical CBOR) / RFC 8949 section 4.2.3 (Length-First Map Key Ordering).
    LengthFirstLexicographic,
}

impl AsCborValue for Label {«
    open spec fn dec_rel(value: Value, r: Result<Self>) -> bool {
        match value {
            Value::Integer(i) => if in_i64(int_val(i)) { r == Ok::<Label, CoseError>(Label::Int(int_val(i) as i64)) } else { r matches Err(e) && e is OutOfRangeIntegerValue },
            Value::Text(t) => r == Ok::<Label, CoseError>(Label::Text(t)),
            _ => r matches Err(e) && e is UnexpectedItem,
        }
    }
    open spec fn enc_rel(self, r: Result<Value>) -> bool { r matches Ok(v) && label_of(v) == Some(self) && vv(v) == label_cv(self) }»
    fn from_cbor_value(value: Value) ->« (r:» Result<Self>«)» {« broadcast use axiom_question_mark_uses_from;»
        match value {
            Value::Integer(i) => Ok(Label::Int(i.try_into()?)),
            Value::Text(t) => Ok(Label::Text(t)),
            v => cbor_type_error(&v, "int/tstr"),
        }
    }
    fn to_cbor_value(self) -> Result<Value> {
        Ok(match self {
            Label::Int(i) => Value::from(i),
            Label::Text(t) => Value::Text(t),
        })
    }
}

/// A COSE label which can be either a signed integer value or a string, but
/// where the allowed integer values are governed by IANA.
#[derive(Clone, Debug, Eq, PartialEq)]
pub enum RegisteredLabel<T: EnumI64> {
    Assigned(T),
    Text(String),
}

impl<T: EnumI64> CborSerializable for RegisteredLabel<T> {}«
pub open spec fn rl_as_label<T: EnumI64>(l: RegisteredLabel<T>) -> Label {
    match l { RegisteredLabel::Assigned(a) => Label::Int(a.spec_to_i64()), RegisteredLabel::Text(t) => Label::Text(t) }
}
impl<T: EnumI64> vstd::std_specs::cmp::PartialEqSpecImpl for RegisteredLabel<T> {
    open spec fn obeys_eq_spec() -> bool { true }
    open spec fn eq_spec(&self, other: &Self) -> bool { *self == *other }
}
impl<T: EnumI64> vstd::std_specs::cmp::OrdSpecImpl for RegisteredLabel<T> {
    open spec fn obeys_cmp_spec() -> bool { true }
    open spec fn cmp_spec(&self, other: &Self) -> Ordering { label_cmp(rl_as_label(*self), rl_as_label(*other)) }
}
impl<T: EnumI64> vstd::std_specs::cmp::PartialOrdSpecImpl for RegisteredLabel<T> {
    open spec fn obeys_partial_cmp_spec() -> bool { true }
    open spec fn partial_cmp_spec(&self, other: &Self) -> Option<Ordering> { Some(label_cmp(rl_as_label(*self), rl_as_label(*other))) }
}
pub proof fn lemma_reglabel_obeys_cmp<T: EnumI64>()
    ensures vstd::laws_cmp::obeys_cmp::<RegisteredLabel<T>>()
{
    reveal(vstd::laws_eq::obeys_eq_spec_properties);
    reveal(vstd::laws_cmp::obeys_cmp_partial_ord);
    reveal(vstd::laws_cmp::obeys_cmp_ord);
    reveal(vstd::laws_cmp::obeys_partial_cmp_spec_properties);
    lemma_label_cmp_laws();
    lemma_rl_as_label_injective::<T>();
}
pub proof fn lemma_rl_as_label_injective<T: EnumI64>()
    ensures forall |x: RegisteredLabel<T>, y: RegisteredLabel<T>| (#[trigger] rl_as_label(x) == #[trigger] rl_as_label(y)) ==> x == y
{
    T::lemma_enum_laws();
    assert forall |x: RegisteredLabel<T>, y: RegisteredLabel<T>| (#[trigger] rl_as_label(x) == #[trigger] rl_as_label(y)) implies x == y by {
        match (x, y) {
            (RegisteredLabel::Assigned(a), RegisteredLabel::Assigned(b)) => {
                assert(T::spec_from_i64(a.spec_to_i64()) == Some(a));
                assert(T::spec_from_i64(b.spec_to_i64()) == Some(b));
            }
            _ => {}
        }
    }
}»

/// Manual implementation of [`Ord`] to ensure that CBOR canonical ordering is respected.
impl<T: EnumI64> Ord for RegisteredLabel<T> {
    fn cmp(&self, other: &Self) -> Ordering {
        match (self, other) {
            (RegisteredLabel::Assigned(i1), RegisteredLabel::Assigned(i2)) => {
                Label::Int(i1.to_i64()).cmp(&Label::Int(i2.to_i64()))
            }
            (RegisteredLabel::Assigned(_i1), RegisteredLabel::Text(_t2)) => Ordering::Less,
            (RegisteredLabel::Text(_t1), RegisteredLabel::Assigned(_i2)) => Ordering::Greater,
            (RegisteredLabel::Text(t1), RegisteredLabel::Text(t2)) => {
                t1.len().cmp(&t2.len()).then(t1.cmp(t2))
            }
        }
    }
}

impl<T: EnumI64> PartialOrd for RegisteredLabel<T> {
    fn partial_cmp(&self, other: &Self) -> Option<Ordering> {
        Some(self.cmp(other))
    }
}

impl<T: EnumI64> AsCborValue for RegisteredLabel<T> {«
    open spec fn enc_rel(self, r: Result<Value>) -> bool { r matches Ok(v) && reg_of::<T>(v) == Some(self) && vv(v) == reg_cv(self) }
    open spec fn dec_rel(value: Value, r: Result<Self>) -> bool { match value {
            Value::Integer(i) => if !in_i64(int_val(i)) { r matches Err(e) && e is OutOfRangeIntegerValue }
                else { match T::spec_from_i64(int_val(i) as i64) {
                    Some(a) => r == Ok::<Self, CoseError>(RegisteredLabel::Assigned(a)),
                    None => r matches Err(e) && e is UnregisteredIanaValue } },
            Value::Text(t) => r == Ok::<Self, CoseError>(RegisteredLabel::Text(t)),
            _ => r matches Err(e) && e is UnexpectedItem,
        } }»
    fn from_cbor_value(value: Value) ->« (r:» Result<Self>«)» {« broadcast use axiom_question_mark_uses_from;»
        match value {
            Value::Integer(i) => {
                if let Some(a) = T::from_i64(i.try_into()?) {
                    Ok(RegisteredLabel::Assigned(a))
                } else {
                    Err(CoseError::UnregisteredIanaValue)
                }
            }
            Value::Text(t) => Ok(RegisteredLabel::Text(t)),
            v => cbor_type_error(&v, "int/tstr"),
        }
    }

    fn to_cbor_value(self) -> Result<Value> {«
        proof { T::lemma_enum_laws(); }»
        Ok(match self {
            RegisteredLabel::Assigned(e) => Value::from(e.to_i64()),
            RegisteredLabel::Text(t) => Value::Text(t),
        })
    }
}

/// A COSE label which can be either a signed integer value or a string, and
/// where the allowed integer values are governed by IANA but include a private
/// use range.
#[derive(Clone, Debug, Eq, PartialEq)]
pub enum RegisteredLabelWithPrivate<T: EnumI64 + WithPrivateRange> {
    PrivateUse(i64),
    Assigned(T),
    Text(String),
}

impl<T: EnumI64 + WithPrivateRange> CborSerializable for RegisteredLabelWithPrivate<T> {}«
pub open spec fn label_of(v: Value) -> Option<Label> {
    match v {
        Value::Integer(i) => if in_i64(int_val(i)) { Some(Label::Int(int_val(i) as i64)) } else { None },
        Value::Text(t) => Some(Label::Text(t)),
        _ => None,
    }
}
pub open spec fn reg_of<T: EnumI64>(v: Value) -> Option<RegisteredLabel<T>> {
    match v {
        Value::Integer(i) => if in_i64(int_val(i)) { match T::spec_from_i64(int_val(i) as i64) { Some(a) => Some(RegisteredLabel::Assigned(a)), None => None } } else { None },
        Value::Text(t) => Some(RegisteredLabel::Text(t)),
        _ => None,
    }
}
pub open spec fn regp_of<T: EnumI64 + WithPrivateRange>(v: Value) -> Option<RegisteredLabelWithPrivate<T>> {
    match v {
        Value::Integer(i) => if in_i64(int_val(i)) { match T::spec_from_i64(int_val(i) as i64) {
            Some(a) => Some(RegisteredLabelWithPrivate::Assigned(a)),
            None => if T::spec_is_private(int_val(i) as i64) { Some(RegisteredLabelWithPrivate::PrivateUse(int_val(i) as i64)) } else { None } } } else { None },
        Value::Text(t) => Some(RegisteredLabelWithPrivate::Text(t)),
        _ => None,
    }
}
pub broadcast axiom fn axiom_derived_clone_regp<T: EnumI64 + WithPrivateRange + Clone>(a: &RegisteredLabelWithPrivate<T>, b: RegisteredLabelWithPrivate<T>)
    ensures #[trigger] call_ensures(<RegisteredLabelWithPrivate<T> as Clone>::clone, (a,), b) ==> b == *a;
pub open spec fn nonempty_bytes(v: Value) -> bool { v matches Value::Bytes(b) && b@.len() > 0 }
pub open spec fn wf_regp<T: EnumI64 + WithPrivateRange>(l: RegisteredLabelWithPrivate<T>) -> bool {
    l matches RegisteredLabelWithPrivate::PrivateUse(i) ==> (T::spec_from_i64(i) is None && T::spec_is_private(i))
}»

«pub open spec fn regp_as_label<T: EnumI64 + WithPrivateRange>(l: RegisteredLabelWithPrivate<T>) -> Label {
    match l {
        RegisteredLabelWithPrivate::Assigned(a) => Label::Int(a.spec_to_i64()),
        RegisteredLabelWithPrivate::PrivateUse(i) => Label::Int(i),
        RegisteredLabelWithPrivate::Text(t) => Label::Text(t),
    }
}
impl<T: EnumI64 + WithPrivateRange> vstd::std_specs::cmp::PartialEqSpecImpl for RegisteredLabelWithPrivate<T> {
    open spec fn obeys_eq_spec() -> bool { true }
    open spec fn eq_spec(&self, other: &Self) -> bool { *self == *other }
}
impl<T: EnumI64 + WithPrivateRange> vstd::std_specs::cmp::OrdSpecImpl for RegisteredLabelWithPrivate<T> {
    open spec fn obeys_cmp_spec() -> bool { true }
    open spec fn cmp_spec(&self, other: &Self) -> Ordering { label_cmp(regp_as_label(*self), regp_as_label(*other)) }
}
impl<T: EnumI64 + WithPrivateRange> vstd::std_specs::cmp::PartialOrdSpecImpl for RegisteredLabelWithPrivate<T> {
    open spec fn obeys_partial_cmp_spec() -> bool { true }
    open spec fn partial_cmp_spec(&self, other: &Self) -> Option<Ordering> { Some(label_cmp(regp_as_label(*self), regp_as_label(*other))) }
}
/// On well-formed labels (what decoding and the builders produce: a `PrivateUse` integer is never a
/// registered value) the projection onto plain labels is injective ...
pub proof fn lemma_regp_as_label_injective<T: EnumI64 + WithPrivateRange>()
    ensures forall |x: RegisteredLabelWithPrivate<T>, y: RegisteredLabelWithPrivate<T>|
        wf_regp(x) && wf_regp(y) && (#[trigger] regp_as_label(x) == #[trigger] regp_as_label(y)) ==> x == y
{
    T::lemma_enum_laws();
    assert forall |x: RegisteredLabelWithPrivate<T>, y: RegisteredLabelWithPrivate<T>|
        wf_regp(x) && wf_regp(y) && (#[trigger] regp_as_label(x) == #[trigger] regp_as_label(y)) implies x == y by {
        match (x, y) {
            (RegisteredLabelWithPrivate::Assigned(a), RegisteredLabelWithPrivate::Assigned(b)) => {
                assert(T::spec_from_i64(a.spec_to_i64()) == Some(a));
                assert(T::spec_from_i64(b.spec_to_i64()) == Some(b));
            }
            (RegisteredLabelWithPrivate::Assigned(a), RegisteredLabelWithPrivate::PrivateUse(i)) => {
                assert(T::spec_from_i64(a.spec_to_i64()) == Some(a));
            }
            (RegisteredLabelWithPrivate::PrivateUse(i), RegisteredLabelWithPrivate::Assigned(b)) => {
                assert(T::spec_from_i64(b.spec_to_i64()) == Some(b));
            }
            _ => {}
        }
    }
}
/// ... so the order the real `cmp` is verified against (`cmp_spec`, the plain-label order of the
/// projection) is a total order consistent with equality on well-formed labels, and the projection
/// has the same data-model value, hence the same deterministic encoding, as the label itself.
pub proof fn lemma_regp_order_laws<T: EnumI64 + WithPrivateRange>()
    ensures
        forall |x: RegisteredLabelWithPrivate<T>, y: RegisteredLabelWithPrivate<T>| wf_regp(x) && wf_regp(y) ==>
            ((x == y) == (#[trigger] vstd::std_specs::cmp::OrdSpec::cmp_spec(&x, &y) is Equal)),
        forall |x: RegisteredLabelWithPrivate<T>, y: RegisteredLabelWithPrivate<T>|
            (#[trigger] vstd::std_specs::cmp::OrdSpec::cmp_spec(&x, &y) is Less) == (vstd::std_specs::cmp::OrdSpec::cmp_spec(&y, &x) is Greater),
        forall |x: RegisteredLabelWithPrivate<T>, y: RegisteredLabelWithPrivate<T>, z: RegisteredLabelWithPrivate<T>|
            (#[trigger] vstd::std_specs::cmp::OrdSpec::cmp_spec(&x, &y) is Less && #[trigger] vstd::std_specs::cmp::OrdSpec::cmp_spec(&y, &z) is Less)
                ==> vstd::std_specs::cmp::OrdSpec::cmp_spec(&x, &z) is Less,
        forall |x: RegisteredLabelWithPrivate<T>, y: RegisteredLabelWithPrivate<T>, z: RegisteredLabelWithPrivate<T>|
            (#[trigger] vstd::std_specs::cmp::OrdSpec::cmp_spec(&x, &y) is Greater && #[trigger] vstd::std_specs::cmp::OrdSpec::cmp_spec(&y, &z) is Greater)
                ==> vstd::std_specs::cmp::OrdSpec::cmp_spec(&x, &z) is Greater,
        forall |x: RegisteredLabelWithPrivate<T>| #[trigger] regp_cv(x) == label_cv(regp_as_label(x)),
        forall |x: RegisteredLabelWithPrivate<T>, y: RegisteredLabelWithPrivate<T>|
            #[trigger] vstd::std_specs::cmp::OrdSpec::cmp_spec(&x, &y) == label_cmp(regp_as_label(x), regp_as_label(y)),
{
    lemma_label_cmp_laws();
    lemma_regp_as_label_injective::<T>();
}
»/// Manual implementation of [`Ord`] to ensure that CBOR canonical ordering is respected.
impl<T: EnumI64 + WithPrivateRange> Ord for RegisteredLabelWithPrivate<T> {
    fn cmp(&self, other: &Self) -> Ordering {
        use RegisteredLabelWithPrivate::{Assigned, PrivateUse, Text};
        match (self, other) {
            (Assigned(i1), Assigned(i2)) => Label::Int(i1.to_i64()).cmp(&Label::Int(i2.to_i64())),
            (Assigned(i1), PrivateUse(i2)) => Label::Int(i1.to_i64()).cmp(&Label::Int(*i2)),
            (PrivateUse(i1), Assigned(i2)) => Label::Int(*i1).cmp(&Label::Int(i2.to_i64())),
            (PrivateUse(i1), PrivateUse(i2)) => Label::Int(*i1).cmp(&Label::Int(*i2)),
            (Assigned(_i1), Text(_t2)) => Ordering::Less,
            (PrivateUse(_i1), Text(_t2)) => Ordering::Less,
            (Text(_t1), Assigned(_i2)) => Ordering::Greater,
            (Text(_t1), PrivateUse(_i2)) => Ordering::Greater,
            (Text(t1), Text(t2)) => t1.len().cmp(&t2.len()).then(t1.cmp(t2)),
        }
    }
}

impl<T: EnumI64 + WithPrivateRange> PartialOrd for RegisteredLabelWithPrivate<T> {
    fn partial_cmp(&self, other: &Self) -> Option<Ordering> {
        Some(self.cmp(other))
    }
}

impl<T: EnumI64 + WithPrivateRange> AsCborValue for RegisteredLabelWithPrivate<T> {«
    open spec fn enc_rel(self, r: Result<Value>) -> bool { r matches Ok(v) && (wf_regp(self) ==> regp_of::<T>(v) == Some(self)) && vv(v) == regp_cv(self) }
    open spec fn dec_rel(value: Value, r: Result<Self>) -> bool { match value {
            Value::Integer(i) => if !in_i64(int_val(i)) { r matches Err(e) && e is OutOfRangeIntegerValue }
                else { match T::spec_from_i64(int_val(i) as i64) {
                    Some(a) => r == Ok::<Self, CoseError>(RegisteredLabelWithPrivate::Assigned(a)),
                    None => if T::spec_is_private(int_val(i) as i64) { r == Ok::<Self, CoseError>(RegisteredLabelWithPrivate::PrivateUse(int_val(i) as i64)) }
                            else { r matches Err(e) && e is UnregisteredIanaNonPrivateValue } } },
            Value::Text(t) => r == Ok::<Self, CoseError>(RegisteredLabelWithPrivate::Text(t)),
            _ => r matches Err(e) && e is UnexpectedItem,
        } }»
    fn from_cbor_value(value: Value) ->« (r:» Result<Self>«)» {« broadcast use axiom_question_mark_uses_from;»
        match value {
            Value::Integer(i) => {
                let i = i.try_into()?;
                if let Some(a) = T::from_i64(i) {
                    Ok(RegisteredLabelWithPrivate::Assigned(a))
                } else if T::is_private(i) {
                    Ok(RegisteredLabelWithPrivate::PrivateUse(i))
                } else {
                    Err(CoseError::UnregisteredIanaNonPrivateValue)
                }
            }
            Value::Text(t) => Ok(RegisteredLabelWithPrivate::Text(t)),
            v => cbor_type_error(&v, "int/tstr"),
        }
    }
    fn to_cbor_value(self) -> Result<Value> {«
        proof { T::lemma_enum_laws(); }»
        Ok(match self {
            RegisteredLabelWithPrivate::PrivateUse(i) => Value::from(i),
            RegisteredLabelWithPrivate::Assigned(i) => Value::from(i.to_i64()),
            RegisteredLabelWithPrivate::Text(t) => Value::Text(t),
        })
    }
}
