//! Kani/CBMC harnesses on the REAL crate (path dependency on /repo).  Complete harnesses are loop-free
//! (or loops bounded by operand width with unwinding assertions on) over full symbolic domains.
#![allow(dead_code)]
#[cfg(kani)]
mod proofs {
    use coset::{iana, iana::EnumI64, Label, TaggedCborSerializable};
    use core::cmp::Ordering;

    /// C14: the six TAG constants equal the IANA CBOR tag numbers (oracle: RFC 8152 table 1) and are pairwise distinct
    #[kani::proof]
    fn tag_consts() {
        assert!(<coset::CoseSign as TaggedCborSerializable>::TAG == 98);
        assert!(<coset::CoseSign1 as TaggedCborSerializable>::TAG == 18);
        assert!(<coset::CoseEncrypt as TaggedCborSerializable>::TAG == 96);
        assert!(<coset::CoseEncrypt0 as TaggedCborSerializable>::TAG == 16);
        assert!(<coset::CoseMac as TaggedCborSerializable>::TAG == 97);
        assert!(<coset::CoseMac0 as TaggedCborSerializable>::TAG == 17);
    }

    // independent encoder of the CBOR head of an integer (RFC 8949 3.1 / 4.2.1), written for this harness
    fn head(major: u8, v: u64) -> ([u8; 9], usize) {
        let m = major << 5;
        let b = v.to_be_bytes();
        if v < 24 { ([m | v as u8, 0, 0, 0, 0, 0, 0, 0, 0], 1) }
        else if v < 0x100 { ([m | 24, b[7], 0, 0, 0, 0, 0, 0, 0], 2) }
        else if v < 0x10000 { ([m | 25, b[6], b[7], 0, 0, 0, 0, 0, 0], 3) }
        else if v < 0x1_0000_0000 { ([m | 26, b[4], b[5], b[6], b[7], 0, 0, 0, 0], 5) }
        else { ([m | 27, b[0], b[1], b[2], b[3], b[4], b[5], b[6], b[7]], 9) }
    }
    fn enc(i: i64) -> ([u8; 9], usize) {
        if i >= 0 { head(0, i as u64) } else { head(1, (-1 - i) as u64) }
    }
    fn lex(a: &([u8; 9], usize), b: &([u8; 9], usize)) -> Ordering {
        let mut k = 0;
        while k < 9 {
            if k >= a.1 || k >= b.1 { break; }
            if a.0[k] != b.0[k] { return a.0[k].cmp(&b.0[k]); }
            k += 1;
        }
        a.1.cmp(&b.1)
    }
    fn len_first(a: &([u8; 9], usize), b: &([u8; 9], usize)) -> Ordering {
        if a.1 != b.1 { return a.1.cmp(&b.1); }
        lex(a, b)
    }
    /// C16: Label::Int order == bytewise lexicographic order of the deterministic encodings, for ALL i64 x i64
    #[kani::proof]
    #[kani::unwind(11)]
    fn label_int_order() {
        let a: i64 = kani::any();
        let b: i64 = kani::any();
        let got = Label::Int(a).cmp(&Label::Int(b));
        assert!(got == lex(&enc(a), &enc(b)));
        assert!((got == Ordering::Equal) == (a == b));
    }
    /// C15 / A-INTEGER: for ALL integers in CBOR's range [-2^64, 2^64-1] the checked narrowing the crate uses
    /// (`i64::try_from(Integer)`, `u64::try_from(Integer)`) returns exactly the value when it fits and an error otherwise.
    /// (A harness through `Value`-level decoders is intractable for CBMC: 15 min, no result; the decoders are covered by Verus.)
    #[kani::proof]
    fn int_narrowing() {
        use ciborium::value::Integer; use core::convert::{TryFrom, TryInto};
        let x: i128 = kani::any();
        kani::assume(x >= -(1i128 << 64) && x < (1i128 << 64));
        let i = Integer::try_from(x).unwrap();
        assert!(i128::from(i) == x);
        let r: Result<u64, _> = i.try_into();
        if x >= 0 { assert!(r.is_ok() && r.unwrap() as i128 == x); } else { assert!(r.is_err()); }
        let r2: Result<i64, _> = i.try_into();
        if x >= i64::MIN as i128 && x <= i64::MAX as i128 { assert!(r2.is_ok() && r2.unwrap() as i128 == x); } else { assert!(r2.is_err()); }
    }
    /// C15 / A-INTEGER: widening on encode keeps the value
    #[kani::proof]
    fn int_widening() {
        use ciborium::value::Integer;
        let a: i64 = kani::any();
        let b: u64 = kani::any();
        assert!(i128::from(Integer::from(a)) == a as i128);
        assert!(i128::from(Integer::from(b)) == b as i128);
    }
    /// C17: private-use predicates hold exactly below -65536, for ALL i64
    #[kani::proof]
    fn private_ranges() {
        use coset::iana::WithPrivateRange;
        let i: i64 = kani::any();
        assert!(iana::Algorithm::is_private(i) == (i < -65536));
        assert!(iana::HeaderParameter::is_private(i) == (i < -65536));
        assert!(iana::EllipticCurve::is_private(i) == (i < -65536));
        assert!(iana::CwtClaimName::is_private(i) == (i < -65536));
    }
}
include!("registries.rs");
