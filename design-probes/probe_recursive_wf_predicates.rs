#![allow(unused_imports, dead_code)]
extern crate alloc;
use vstd::prelude::*;
use ciborium::value::{Value, Integer};
use alloc::{vec::Vec};
verus! {
#[verifier::external_type_specification]
pub struct ExValue(Value);
#[verifier::external_type_specification]
#[verifier::external_body]
pub struct ExInteger(Integer);
pub uninterp spec fn parse(b: Seq<u8>) -> Option<(Value, int)>;
pub uninterp spec fn is_label7(k: Value) -> bool;
pub const MAXD: usize = 16;

pub open spec fn hdr_ok(v: Value, depth: nat) -> bool
    decreases MAXD - depth, v, 2nat
{
    v matches Value::Map(m) && forall |i: int| 0 <= i < m@.len() ==> (is_label7(m@[i].0) ==> csig_ok(#[trigger] m@[i].1, depth))
}
pub open spec fn csig_ok(v: Value, depth: nat) -> bool
    decreases MAXD - depth, v, 1nat
{
    v matches Value::Array(a) && a@.len() > 0 && (
        (a@[0] is Bytes && sig_ok(v, depth))
        || (a@[0] is Array && forall |j: int| 0 <= j < a@.len() ==> sig_ok(#[trigger] a@[j], depth)))
}
pub open spec fn sig_ok(v: Value, depth: nat) -> bool
    decreases MAXD - depth, v, 0nat
{
    v matches Value::Array(a) && a@.len() == 3 && prot_ok(a@[0], depth) && hdr_ok(a@[1], depth) && a@[2] is Bytes
}
pub open spec fn prot_ok(v: Value, depth: nat) -> bool
    decreases MAXD - depth, v, 3nat
{
    v matches Value::Bytes(d) && (d@.len() == 0 || (depth < MAXD && (parse(d@) matches Some((v2, n)) && n == d@.len() && hdr_ok(v2, depth + 1))))
}
}
fn main(){}
