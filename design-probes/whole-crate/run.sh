D=/tmp/vx/cib/target/debug/deps; verus ${1:-all.rs} --extern ciborium=$D/libciborium-432bf8274d47e34e.rlib --extern ciborium_io=$D/libciborium_io-43751db6853007d8.rlib -L dependency=$D "${@:2}" 2>&1
