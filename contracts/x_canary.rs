// Vacuity / soundness canaries: both MUST FAIL.  If one verifies, the assumed contracts and axioms
// are contradictory (or the verifier is not checking anything) and no result of the run is believed.
mod vcanary {
use vstd::prelude::*;
use crate::*;
use crate::vprelude::*;
use ciborium::value::Value;
verus!{
pub proof fn canary_false() ensures false {}
pub proof fn canary_axioms() ensures false {
    broadcast use axiom_int_val_injective;
    broadcast use axiom_vv_injective;
    broadcast use axiom_question_mark_uses_from;
    broadcast use axiom_utf8_injective;
    broadcast use axiom_string_ext;
    broadcast use crate::common::axiom_derived_clone_label;
    broadcast use crate::util::axiom_iter_enc_err_vec;
    broadcast use crate::util::axiom_iter_enc_ok_vec;
    broadcast use vstd::std_specs::btree::group_btree_axioms;
    let v = Value::Null; let w = Value::Bool(true);
    assert(vv(v) != vv(w));
}
}
}
